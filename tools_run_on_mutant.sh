#!/bin/bash
# usage: tools_run_on_mutant.sh <patch.diff> <property id>...   (applies to /repo, runs quick checks, ALWAYS reverts)
export GOFLAGS=-mod=mod GOPROXY=off GOSUMDB=off GOTOOLCHAIN=local
P=$1; shift
cd /verif
[ -z "$(git -C /repo status --porcelain --untracked-files=no)" ] || { echo "/repo is dirty"; exit 2; }
git -C /repo apply "$P" || { echo "patch does not apply"; exit 2; }
trap 'git -C /repo checkout -- . ; git -C /verif checkout -- evidence ; echo "(reverted /repo, restored evidence)"' EXIT
for id in "$@"; do
  echo "=== $id on $(basename $(dirname $P))"
  ./bin/verifsim check $id --tier quick > /tmp/mutcheck-$id.log 2>&1; rc=$?
  grep -c "^VIOLATION" /tmp/mutcheck-$id.log | sed 's/^/violations: /'
  grep -A1 "^VIOLATION" /tmp/mutcheck-$id.log | grep "class=" | cut -c1-260 | head -6
  tail -1 /tmp/mutcheck-$id.log | cut -c1-200
  echo "exit=$rc"
done
