// Package instr rewrites a scratch copy of the SDK so that every source of
// nondeterminism is routed through the simulator runtime (zzsimrt):
//
//   - a Yield before every statement of the selected files (and after every
//     blocking statement of every file),
//   - go statements            -> zzsimrt.Go
//   - import "sync"            -> zzsimrt/simsync
//   - select statements        -> zzsimrt.Select (tape-ordered polling)
//   - range over a map         -> zzsimrt.MapOrder
//   - reflect.Value.MapKeys()  -> zzsimrt.OrderKeys
//
// All rewrites are semantics preserving; nothing refers to line numbers.
package instr

import (
	"bytes"
	"encoding/json"
	"fmt"
	"go/ast"
	"go/format"
	"go/importer"
	"go/parser"
	"go/token"
	"go/types"
	"io"
	"os"
	"os/exec"
	"path/filepath"
	"sort"
	"strconv"
	"strings"
)

const (
	rtPath   = "go.flow.arcalot.io/pluginsdk/zzsimrt"
	syncPath = "go.flow.arcalot.io/pluginsdk/zzsimrt/simsync"
	rtName   = "zzsimrt"
)

// Options of one instrumentation run.
type Options struct {
	Root      string   // module root of the scratch copy
	Pkgs      []string // package directories relative to Root (e.g. "atp", "schema")
	YieldAll  []string // glob patterns (relative paths) of files that get a yield before every statement
	GoCmd     string   // go command to use for `go list -export`
	LocalSeam bool     // package main without module access: emit calls to local zzMapOrder (map seam only)
}

// Site describes one instrumented site.
type Site struct {
	Label string
	Yield bool
	Kind  string // s, go, sel, map, keys, post
	File  string
	Func  string
}

// Result of an instrumentation run.
type Result struct {
	Sites    []Site
	Warnings []string
	Counts   map[string]int
}

type rewriter struct {
	opts     Options
	fset     *token.FileSet
	info     *types.Info
	res      *Result
	file     string
	yield    bool
	funcName string
	stmtNo   int
	usedRT   bool
	tmpNo    int
	done     map[*ast.CallExpr]bool
}

func (r *rewriter) warn(format string, a ...any) {
	r.res.Warnings = append(r.res.Warnings, fmt.Sprintf(r.file+": "+format, a...))
}

func (r *rewriter) newSite(kind, desc string, yield bool) int {
	label := fmt.Sprintf("%s:%s:%s%d", r.file, r.funcName, kind, r.stmtNo)
	if desc != "" {
		label += ":" + desc
	}
	r.res.Sites = append(r.res.Sites, Site{Label: label, Yield: yield, Kind: kind, File: r.file, Func: r.funcName})
	r.res.Counts[kind]++
	return len(r.res.Sites) - 1
}

func ident(n string) *ast.Ident { return ast.NewIdent(n) }

func intLit(i int) ast.Expr { return &ast.BasicLit{Kind: token.INT, Value: strconv.Itoa(i)} }

func (r *rewriter) rtCall(fn string, args ...ast.Expr) *ast.CallExpr {
	r.usedRT = true
	if r.opts.LocalSeam {
		return &ast.CallExpr{Fun: ident("zz" + fn), Args: args}
	}
	return &ast.CallExpr{Fun: &ast.SelectorExpr{X: ident(rtName), Sel: ident(fn)}, Args: args}
}

func (r *rewriter) yieldStmt(site int) ast.Stmt {
	return &ast.ExprStmt{X: r.rtCall("Yield", intLit(site))}
}

// describe gives a short, line-free description of a statement.
func describe(st ast.Stmt) string {
	switch s := st.(type) {
	case *ast.ReturnStmt:
		return "return"
	case *ast.IfStmt:
		return "if"
	case *ast.ForStmt:
		return "for"
	case *ast.RangeStmt:
		return "range"
	case *ast.SwitchStmt, *ast.TypeSwitchStmt:
		return "switch"
	case *ast.SelectStmt:
		return "select"
	case *ast.GoStmt:
		return "go"
	case *ast.DeferStmt:
		return "defer:" + callName(s.Call)
	case *ast.SendStmt:
		return "send"
	case *ast.ExprStmt:
		if c, ok := s.X.(*ast.CallExpr); ok {
			return "call:" + callName(c)
		}
		if u, ok := s.X.(*ast.UnaryExpr); ok && u.Op == token.ARROW {
			return "recv"
		}
		return "expr"
	case *ast.AssignStmt:
		d := "assign"
		if len(s.Lhs) > 0 {
			d += ":" + exprName(s.Lhs[0])
		}
		return d
	case *ast.IncDecStmt:
		return "incdec"
	case *ast.BranchStmt:
		return s.Tok.String()
	case *ast.BlockStmt:
		return "block"
	case *ast.LabeledStmt:
		return "label:" + s.Label.Name
	}
	return ""
}

func exprName(e ast.Expr) string {
	switch x := e.(type) {
	case *ast.Ident:
		return x.Name
	case *ast.SelectorExpr:
		return exprName(x.X) + "." + x.Sel.Name
	case *ast.StarExpr:
		return exprName(x.X)
	case *ast.IndexExpr:
		return exprName(x.X) + "[]"
	case *ast.ParenExpr:
		return exprName(x.X)
	case *ast.CallExpr:
		return callName(x) + "()"
	}
	return "_"
}

func callName(c *ast.CallExpr) string {
	switch f := c.Fun.(type) {
	case *ast.FuncLit:
		return "func"
	default:
		return exprName(f)
	}
}

// containsBlocking reports whether the statement (not descending into
// function literals or nested statement bodies) contains a blocking operation.
func containsBlocking(n ast.Node) bool {
	if n == nil || isNilNode(n) {
		return false
	}
	found := false
	ast.Inspect(n, func(x ast.Node) bool {
		if found {
			return false
		}
		switch v := x.(type) {
		case *ast.FuncLit, *ast.BlockStmt:
			return x == n
		case *ast.UnaryExpr:
			if v.Op == token.ARROW {
				found = true
			}
		case *ast.SendStmt:
			found = true
		case *ast.CallExpr:
			if sel, ok := v.Fun.(*ast.SelectorExpr); ok {
				if sel.Sel.Name == "Wait" || (sel.Sel.Name == "Sleep" && exprName(sel.X) == "time") {
					found = true
				}
			}
		}
		return true
	})
	return found
}

// funcLits processes function literals that occur in the expressions of a
// statement (their bodies are separate instrumentation scopes).
func isNilNode(n ast.Node) bool {
	switch v := n.(type) {
	case ast.Stmt:
		return v == nil
	case ast.Expr:
		return v == nil
	}
	return false
}

func (r *rewriter) funcLits(n ast.Node) {
	if n == nil || isNilNode(n) {
		return
	}
	ast.Inspect(n, func(x ast.Node) bool {
		switch v := x.(type) {
		case *ast.FuncLit:
			r.block(v.Body)
			return false
		case *ast.BlockStmt:
			// nested statement bodies are handled by stmt recursion
			return x == n
		case *ast.CallExpr:
			r.mapKeysCall(v)
		}
		return true
	})
}

func (r *rewriter) mapKeysCall(c *ast.CallExpr) {
	sel, ok := c.Fun.(*ast.SelectorExpr)
	if !ok || len(c.Args) != 0 {
		return
	}
	if sel.Sel.Name == "MapRange" && r.isReflectValue(sel.X) {
		r.warn("reflect.Value.MapRange is not routed through the map-order seam (%s)", r.funcName)
		return
	}
	if sel.Sel.Name != "MapKeys" || !r.isReflectValue(sel.X) {
		return
	}
	if r.done[c] {
		return
	}
	orig := *c
	if r.done == nil {
		r.done = map[*ast.CallExpr]bool{}
	}
	r.done[&orig] = true
	r.done[c] = true
	site := r.newSite("keys", "", false)
	nc := r.rtCall("OrderKeys", intLit(site), &orig)
	*c = *nc
}

func (r *rewriter) isReflectValue(e ast.Expr) bool {
	if r.info == nil {
		return false
	}
	t := r.info.TypeOf(e)
	if t == nil {
		return false
	}
	if p, ok := t.(*types.Pointer); ok {
		t = p.Elem()
	}
	n, ok := t.(*types.Named)
	return ok && n.Obj().Pkg() != nil && n.Obj().Pkg().Path() == "reflect" && n.Obj().Name() == "Value"
}

func (r *rewriter) block(b *ast.BlockStmt) {
	if b == nil {
		return
	}
	b.List = r.stmts(b.List)
}

func (r *rewriter) stmts(list []ast.Stmt) []ast.Stmt {
	out := make([]ast.Stmt, 0, 2*len(list))
	for _, st := range list {
		pre, nst, post := r.stmt(st)
		out = append(out, pre...)
		out = append(out, nst)
		out = append(out, post...)
	}
	return out
}

// stmt instruments one statement and returns statements to put before it,
// its replacement, and statements to put after it.
func (r *rewriter) stmt(st ast.Stmt) (pre []ast.Stmt, repl ast.Stmt, post []ast.Stmt) {
	return r.stmtX(st, true)
}

func (r *rewriter) stmtX(st ast.Stmt, allowPre bool) (pre []ast.Stmt, repl ast.Stmt, post []ast.Stmt) {
	r.stmtNo++
	myNo := r.stmtNo
	desc := describe(st)
	repl = st
	blocking := false

	switch s := st.(type) {
	case *ast.BlockStmt:
		r.block(s)
	case *ast.IfStmt:
		r.funcLits(s.Init)
		r.funcLits(s.Cond)
		blocking = (s.Init != nil && containsBlocking(s.Init)) || containsBlocking(s.Cond)
		r.block(s.Body)
		if s.Else != nil {
			// else branches are statements of their own (no yield between if and else)
			switch e := s.Else.(type) {
			case *ast.BlockStmt:
				r.block(e)
			case *ast.IfStmt:
				_, _, _ = r.stmtX(e, false)
			}
		}
		if blocking {
			// the wake-up lands inside the branches: yield at their starts
			r.prependYield(s.Body, myNo, "post")
			if eb, ok := s.Else.(*ast.BlockStmt); ok {
				r.prependYield(eb, myNo, "post")
			}
			blocking = false
		}
	case *ast.ForStmt:
		r.funcLits(s.Init)
		r.funcLits(s.Cond)
		r.funcLits(s.Post)
		r.block(s.Body)
		if !r.yield {
			if (s.Cond != nil && containsBlocking(s.Cond)) || len(s.Body.List) == 0 {
				r.prependYield(s.Body, myNo, "post")
			}
		} else if len(s.Body.List) == 0 {
			r.prependYield(s.Body, myNo, "s")
		}
	case *ast.RangeStmt:
		r.funcLits(s.X)
		r.block(s.Body)
		r.rangeStmt(s, myNo)
	case *ast.SwitchStmt:
		r.funcLits(s.Init)
		r.funcLits(s.Tag)
		for _, c := range s.Body.List {
			cc := c.(*ast.CaseClause)
			for _, e := range cc.List {
				r.funcLits(e)
			}
			cc.Body = r.stmts(cc.Body)
		}
	case *ast.TypeSwitchStmt:
		r.funcLits(s.Init)
		r.funcLits(s.Assign)
		for _, c := range s.Body.List {
			cc := c.(*ast.CaseClause)
			cc.Body = r.stmts(cc.Body)
		}
	case *ast.SelectStmt:
		for _, c := range s.Body.List {
			cc := c.(*ast.CommClause)
			r.funcLits(cc.Comm)
			cc.Body = r.stmts(cc.Body)
		}
		save := r.stmtNo
		r.stmtNo = myNo
		repl = r.selectStmt(s, nil)
		r.stmtNo = save
	case *ast.LabeledStmt:
		// instrument the labelled statement; keep the label on its replacement
		r.stmtNo--
		p, inner, po := r.stmt(s.Stmt)
		if sel, ok := s.Stmt.(*ast.SelectStmt); ok && inner != s.Stmt {
			_ = sel
		}
		s.Stmt = inner
		return p, s, po
	case *ast.GoStmt:
		r.funcLits(s.Call)
		save := r.stmtNo
		r.stmtNo = myNo
		repl = r.goStmt(s)
		r.stmtNo = save
	case *ast.DeferStmt:
		r.funcLits(s.Call)
	case *ast.ReturnStmt:
		for _, e := range s.Results {
			r.funcLits(e)
		}
	case *ast.DeclStmt:
		r.funcLits(s.Decl)
		return nil, st, nil
	case *ast.EmptyStmt:
		return nil, st, nil
	default:
		r.funcLits(st)
		blocking = containsBlocking(st)
	}

	save := r.stmtNo
	r.stmtNo = myNo
	if r.yield && allowPre {
		pre = append(pre, r.yieldStmt(r.newSite("s", desc, true)))
	}
	if blocking {
		if _, isRet := st.(*ast.ReturnStmt); !isRet {
			post = append(post, r.yieldStmt(r.newSite("post", desc, false)))
		}
	}
	r.stmtNo = save
	return pre, repl, post
}

func (r *rewriter) prependYield(b *ast.BlockStmt, no int, kind string) {
	save := r.stmtNo
	r.stmtNo = no
	y := r.yieldStmt(r.newSite(kind, "body", kind == "s"))
	r.stmtNo = save
	b.List = append([]ast.Stmt{y}, b.List...)
}

// ------------------------------------------------------------------ go

func (r *rewriter) isConstOrNil(e ast.Expr) bool {
	if _, ok := e.(*ast.BasicLit); ok {
		return true
	}
	if r.info != nil {
		if tv, ok := r.info.Types[e]; ok {
			if tv.Value != nil || tv.IsNil() {
				return true
			}
		}
	}
	if id, ok := e.(*ast.Ident); ok && (id.Name == "nil" || id.Name == "true" || id.Name == "false") {
		return true
	}
	return false
}

func (r *rewriter) goStmt(s *ast.GoStmt) ast.Stmt {
	site := r.newSite("go", callName(s.Call), false)
	call := s.Call
	// go func(){...}()  -> Go(site, func(){...})
	if fl, ok := call.Fun.(*ast.FuncLit); ok && len(call.Args) == 0 && (fl.Type.Params == nil || len(fl.Type.Params.List) == 0) && (fl.Type.Results == nil || len(fl.Type.Results.List) == 0) {
		return &ast.ExprStmt{X: r.rtCall("Go", intLit(site), fl)}
	}
	// general form: evaluate function value and arguments now
	var hoist []ast.Stmt
	tmp := func(e ast.Expr) ast.Expr {
		r.tmpNo++
		name := fmt.Sprintf("zzg%d", r.tmpNo)
		hoist = append(hoist, &ast.AssignStmt{Lhs: []ast.Expr{ident(name)}, Tok: token.DEFINE, Rhs: []ast.Expr{e}})
		return ident(name)
	}
	newCall := &ast.CallExpr{Ellipsis: call.Ellipsis}
	switch f := call.Fun.(type) {
	case *ast.FuncLit:
		newCall.Fun = f
	case *ast.Ident:
		newCall.Fun = f // package-level function or local func variable; keep (captured variable reads are the same value unless reassigned)
		if r.info != nil {
			if _, isVar := r.info.Uses[f].(*types.Var); isVar {
				newCall.Fun = tmp(f)
			}
		}
	case *ast.SelectorExpr:
		isPkgFunc := false
		if r.info != nil {
			if id, ok := f.X.(*ast.Ident); ok {
				if _, ok := r.info.Uses[id].(*types.PkgName); ok {
					isPkgFunc = true
				}
			}
		}
		if isPkgFunc {
			newCall.Fun = f
		} else {
			newCall.Fun = tmp(f) // method value binds the receiver now
		}
	default:
		newCall.Fun = tmp(call.Fun)
	}
	for _, a := range call.Args {
		if r.isConstOrNil(a) {
			newCall.Args = append(newCall.Args, a)
		} else {
			newCall.Args = append(newCall.Args, tmp(a))
		}
	}
	fl := &ast.FuncLit{Type: &ast.FuncType{Params: &ast.FieldList{}}, Body: &ast.BlockStmt{List: []ast.Stmt{&ast.ExprStmt{X: newCall}}}}
	goCall := &ast.ExprStmt{X: r.rtCall("Go", intLit(site), fl)}
	if len(hoist) == 0 {
		return goCall
	}
	return &ast.BlockStmt{List: append(hoist, goCall)}
}

// ------------------------------------------------------------------ select

func unparen(e ast.Expr) ast.Expr {
	for {
		p, ok := e.(*ast.ParenExpr)
		if !ok {
			return e
		}
		e = p.X
	}
}

func (r *rewriter) selectStmt(s *ast.SelectStmt, _ *ast.LabeledStmt) ast.Stmt {
	var comm []*ast.CommClause
	var def *ast.CommClause
	for _, c := range s.Body.List {
		cc := c.(*ast.CommClause)
		if cc.Comm == nil {
			def = cc
		} else {
			comm = append(comm, cc)
		}
	}
	if len(comm) == 0 {
		return s // select {} or default only
	}
	site := r.newSite("sel", "", false)
	var names []ast.Expr
	var ctors []ast.Expr
	var clauses []ast.Stmt
	for i, cc := range comm {
		name := fmt.Sprintf("zzsc%d_%d", site, i)
		names = append(names, ident(name))
		var body []ast.Stmt
		switch c := cc.Comm.(type) {
		case *ast.SendStmt:
			ctors = append(ctors, r.rtCall("NewSend", c.Chan, c.Value))
		case *ast.ExprStmt:
			u, ok := unparen(c.X).(*ast.UnaryExpr)
			if !ok || u.Op != token.ARROW {
				r.warn("select clause not understood; statement left as is (%s)", r.funcName)
				return s
			}
			ctors = append(ctors, r.rtCall("NewRecv", u.X))
		case *ast.AssignStmt:
			u, ok := unparen(c.Rhs[0]).(*ast.UnaryExpr)
			if !ok || u.Op != token.ARROW || len(c.Rhs) != 1 {
				r.warn("select clause not understood; statement left as is (%s)", r.funcName)
				return s
			}
			ctors = append(ctors, r.rtCall("NewRecv", u.X))
			rhs := []ast.Expr{&ast.SelectorExpr{X: ident(name), Sel: ident("V")}}
			if len(c.Lhs) == 2 {
				rhs = append(rhs, &ast.SelectorExpr{X: ident(name), Sel: ident("OK")})
			}
			body = append(body, &ast.AssignStmt{Lhs: c.Lhs, Tok: c.Tok, Rhs: rhs})
		default:
			r.warn("select clause not understood; statement left as is (%s)", r.funcName)
			return s
		}
		body = append(body, cc.Body...)
		clauses = append(clauses, &ast.CaseClause{List: []ast.Expr{intLit(i)}, Body: body})
	}
	fn := "Select"
	if def != nil {
		fn = "SelectDefault"
		clauses = append(clauses, &ast.CaseClause{List: nil, Body: def.Body})
	} else {
		// keeps the statement "terminating" exactly when the select was
		clauses = append(clauses, &ast.CaseClause{List: nil, Body: []ast.Stmt{&ast.ExprStmt{X: &ast.CallExpr{Fun: ident("panic"), Args: []ast.Expr{&ast.BasicLit{Kind: token.STRING, Value: `"zzsimrt: unreachable select result"`}}}}}})
	}
	args := append([]ast.Expr{intLit(site)}, names...)
	return &ast.SwitchStmt{
		Init: &ast.AssignStmt{Lhs: names, Tok: token.DEFINE, Rhs: ctors},
		Tag:  r.rtCall(fn, args...),
		Body: &ast.BlockStmt{List: clauses},
	}
}

// ------------------------------------------------------------------ range

func (r *rewriter) rangeStmt(s *ast.RangeStmt, no int) {
	if r.info == nil {
		return
	}
	t := r.info.TypeOf(s.X)
	if t == nil {
		return
	}
	save := r.stmtNo
	r.stmtNo = no
	defer func() { r.stmtNo = save }()
	switch t.Underlying().(type) {
	case *types.Map:
		site := r.newSite("map", exprName(s.X), false)
		s.X = r.rtCall("MapOrder", intLit(site), s.X)
	case *types.Chan:
		if !r.yield {
			r.prependYield(s.Body, no, "post")
		}
	}
}

// ------------------------------------------------------------------ files

func matchAny(patterns []string, rel string) bool {
	for _, p := range patterns {
		if ok, _ := filepath.Match(p, rel); ok {
			return true
		}
		if strings.HasSuffix(p, "/...") && strings.HasPrefix(rel, strings.TrimSuffix(p, "...")) {
			return true
		}
	}
	return false
}

func funcDeclName(d *ast.FuncDecl) string {
	if d.Recv == nil || len(d.Recv.List) == 0 {
		return d.Name.Name
	}
	t := d.Recv.List[0].Type
	star := ""
	if s, ok := t.(*ast.StarExpr); ok {
		star = "*"
		t = s.X
	}
	switch x := t.(type) {
	case *ast.IndexExpr:
		t = x.X
	case *ast.IndexListExpr:
		t = x.X
	}
	return "(" + star + exprName(t) + ")." + d.Name.Name
}

type listedPkg struct {
	ImportPath string
	Export     string
	Dir        string
}

func exportMap(root, goCmd string, pkgs []string) (map[string]string, error) {
	args := []string{"list", "-export", "-deps", "-json=ImportPath,Export,Dir"}
	for _, p := range pkgs {
		args = append(args, "./"+p)
	}
	cmd := exec.Command(goCmd, args...)
	cmd.Dir = root
	var stderr bytes.Buffer
	cmd.Stderr = &stderr
	out, err := cmd.Output()
	if err != nil {
		return nil, fmt.Errorf("go list -export failed: %v\n%s", err, stderr.String())
	}
	m := map[string]string{}
	dec := json.NewDecoder(bytes.NewReader(out))
	for {
		var p listedPkg
		if err := dec.Decode(&p); err == io.EOF {
			break
		} else if err != nil {
			return nil, err
		}
		if p.Export != "" {
			m[p.ImportPath] = p.Export
		}
	}
	return m, nil
}

// Run instruments the packages in place.
func Run(opts Options) (*Result, error) {
	res := &Result{Counts: map[string]int{}}
	if opts.GoCmd == "" {
		opts.GoCmd = "go"
	}
	exports, err := exportMap(opts.Root, opts.GoCmd, opts.Pkgs)
	if err != nil {
		return nil, err
	}
	fset := token.NewFileSet()
	imp := importer.ForCompiler(fset, "gc", func(path string) (io.ReadCloser, error) {
		f, ok := exports[path]
		if !ok {
			return nil, fmt.Errorf("no export data for %s", path)
		}
		return os.Open(f)
	})
	for _, pkg := range opts.Pkgs {
		dir := filepath.Join(opts.Root, pkg)
		entries, err := os.ReadDir(dir)
		if err != nil {
			return nil, err
		}
		var files []*ast.File
		var names []string
		var headers []string
		for _, e := range entries {
			n := e.Name()
			if e.IsDir() || !strings.HasSuffix(n, ".go") || strings.HasSuffix(n, "_test.go") || strings.HasPrefix(n, "zz_") {
				continue
			}
			path := filepath.Join(dir, n)
			src, err := os.ReadFile(path)
			if err != nil {
				return nil, err
			}
			f, err := parser.ParseFile(fset, path, src, parser.SkipObjectResolution)
			if err != nil {
				return nil, fmt.Errorf("parse %s: %w", path, err)
			}
			files = append(files, f)
			names = append(names, n)
			headers = append(headers, buildHeader(src))
		}
		if len(files) == 0 {
			continue
		}
		info := &types.Info{
			Types:      map[ast.Expr]types.TypeAndValue{},
			Uses:       map[*ast.Ident]types.Object{},
			Selections: map[*ast.SelectorExpr]*types.Selection{},
		}
		var terrs []string
		conf := types.Config{Importer: imp, Error: func(err error) { terrs = append(terrs, err.Error()) }}
		_, _ = conf.Check(pkg, fset, files, info)
		if len(terrs) > 0 {
			return nil, fmt.Errorf("type errors in %s (does the tree compile?): %s", pkg, strings.Join(terrs, "; "))
		}
		for i, f := range files {
			rel := filepath.ToSlash(filepath.Join(pkg, names[i]))
			r := &rewriter{opts: opts, fset: fset, info: info, res: res, file: rel, yield: matchAny(opts.YieldAll, rel)}
			r.file = rel
			if err := r.fileRewrite(f); err != nil {
				return nil, err
			}
			var buf bytes.Buffer
			buf.WriteString(headers[i])
			if err := format.Node(&buf, fset, f); err != nil {
				return nil, fmt.Errorf("print %s: %w", rel, err)
			}
			if err := os.WriteFile(filepath.Join(dir, names[i]), buf.Bytes(), 0o644); err != nil {
				return nil, err
			}
		}
	}
	sort.Strings(res.Warnings)
	return res, nil
}

func buildHeader(src []byte) string {
	var b strings.Builder
	for _, line := range strings.Split(string(src), "\n") {
		t := strings.TrimSpace(line)
		if strings.HasPrefix(t, "package ") {
			break
		}
		if strings.HasPrefix(t, "//go:build") || strings.HasPrefix(t, "// +build") {
			b.WriteString(t + "\n")
		}
	}
	if b.Len() > 0 {
		b.WriteString("\n")
	}
	return b.String()
}

func (r *rewriter) fileRewrite(f *ast.File) error {
	f.Comments = nil
	f.Doc = nil
	// sync import redirect
	for _, is := range f.Imports {
		p, _ := strconv.Unquote(is.Path.Value)
		if p == "sync" && !r.opts.LocalSeam {
			is.Path.Value = strconv.Quote(syncPath)
			if is.Name == nil {
				is.Name = ident("sync")
			}
			r.res.Counts["syncimport"]++
		}
	}
	for _, d := range f.Decls {
		switch x := d.(type) {
		case *ast.FuncDecl:
			x.Doc = nil
			if x.Body == nil {
				continue
			}
			r.funcName = funcDeclName(x)
			r.stmtNo = 0
			r.block(x.Body)
		case *ast.GenDecl:
			x.Doc = nil
			r.funcName = "<pkg>"
			r.stmtNo = 0
			y := r.yield
			r.yield = false
			r.funcLits(x)
			r.yield = y
		}
	}
	if r.usedRT && !r.opts.LocalSeam {
		// add the runtime import
		spec := &ast.ImportSpec{Name: ident(rtName), Path: &ast.BasicLit{Kind: token.STRING, Value: strconv.Quote(rtPath)}}
		gd := &ast.GenDecl{Tok: token.IMPORT, Specs: []ast.Spec{spec}}
		f.Decls = append([]ast.Decl{gd}, f.Decls...)
		f.Imports = append(f.Imports, spec)
	}
	return nil
}

// WriteSiteTable writes zzsimrt/sites_gen.go for the instrumented copy.
func WriteSiteTable(root string, res *Result) error {
	var b bytes.Buffer
	b.WriteString("package zzsimrt\n\n// Code generated by /verif/instr. DO NOT EDIT.\n\nvar SiteTable = []string{\n")
	for _, s := range res.Sites {
		fmt.Fprintf(&b, "\t%q,\n", s.Label)
	}
	b.WriteString("}\n\nvar SiteYield = []bool{\n")
	for _, s := range res.Sites {
		fmt.Fprintf(&b, "\t%v,\n", s.Yield)
	}
	b.WriteString("}\n")
	return os.WriteFile(filepath.Join(root, "zzsimrt", "sites_gen.go"), b.Bytes(), 0o644)
}
