package harness

import (
	"encoding/json"
	"fmt"
	"os"
	"sort"
	"testing"

	rt "go.flow.arcalot.io/pluginsdk/zzsimrt"
)

// Job is what the driver asks a worker process to do.
type Job struct {
	Property   string          `json:"property"`
	Batch      string          `json:"batch"` // named batch configuration of the engine
	Mode       string          `json:"mode"`  // explore | replay
	Seed       uint64          `json:"seed"`
	From       uint64          `json:"from"` // run indexes [From, To)
	To         uint64          `json:"to"`
	Out        string          `json:"out"`    // JSONL output path
	Replay     string          `json:"replay"` // replay file (mode replay)
	ReplayDir  string          `json:"replay_dir"`
	MaxViol    int             `json:"max_violations"`
	Trace      string          `json:"trace"` // write full event logs here (determinism self-test)
	Extra      json.RawMessage `json:"extra,omitempty"`
	NoMinimise bool            `json:"no_minimise,omitempty"`
	Known      []Violation     `json:"known,omitempty"` // known findings: not minimised, no replay file
	// SubMod / SubRem shard the sub-runs (fault points) of a base run over several workers: a worker executes
	// the sub-runs whose index is SubRem modulo SubMod (0 = all)
	SubMod int `json:"sub_mod,omitempty"`
	SubRem int `json:"sub_rem,omitempty"`
}

// RunRecord is one line of worker output.
type RunRecord struct {
	Run        uint64         `json:"run"`
	Sub        int            `json:"sub"`
	Batch      string         `json:"batch"`
	Outcome    string         `json:"outcome"` // ok | violation | excluded | infra
	Reason     string         `json:"reason,omitempty"`
	Violations []Violation    `json:"violations,omitempty"`
	Steps      int            `json:"steps"`
	Switches   int            `json:"switches"`
	Preempt    int            `json:"preempt"`
	FakeMs     int64          `json:"fake_ms"`
	SchedSig   string         `json:"sig"`
	LogHash    string         `json:"log_hash"`
	Faults     map[string]int `json:"faults,omitempty"`
	Probes     map[string]int `json:"probes,omitempty"`
	Features   []string       `json:"features,omitempty"`
	Strategy   string         `json:"strategy,omitempty"`
	Sites      []int          `json:"sites,omitempty"` // distinct yield sites reached (ids)
	Pairs      int            `json:"pairs,omitempty"` // distinct preemption pairs in this run
	PairHashes []uint64       `json:"pair_hashes,omitempty"`
	Sample     any            `json:"sample,omitempty"`
	ReplayFile string         `json:"replay_file,omitempty"`
	TapeLen    int            `json:"tape_len"`
	Nontrivial bool           `json:"nontrivial"`
}

// Engine runs one simulated execution decided by a tape.
type Engine interface {
	// Run executes one run. extra carries batch-specific, per-run parameters
	// (for sweeps) and is stored in replay files.
	Run(t *testing.T, batch string, tape *rt.Tape, runIdx uint64, extra json.RawMessage, trace func(string)) RunRecord
}

// SubRunner is implemented by engines whose unit of work expands into several
// executions (crash-point enumeration along one base execution).
type SubRunner interface {
	// SubRuns may execute the base run (with the given tape, which every sub-run shares as its
	// prefix) to learn where the fault points are.
	SubRuns(t *testing.T, batch string, baseTape func() *rt.Tape, runIdx uint64, extra json.RawMessage) []json.RawMessage
}

var engines = map[string]Engine{}

// ReplayFile is the on-disk form of a violating run.
type ReplayFile struct {
	Property      string          `json:"property"`
	Engine        string          `json:"engine"`
	Batch         string          `json:"batch"`
	Seed          uint64          `json:"seed"`
	RunIndex      uint64          `json:"run_index"`
	Sub           int             `json:"sub"`
	Extra         json.RawMessage `json:"extra,omitempty"`
	Violation     Violation       `json:"violation"`
	AllViolations []Violation     `json:"all_violations,omitempty"`
	LogHash       string          `json:"event_log_hash"`
	Minimised     bool            `json:"minimised"`
	MinimisedFrom map[string]int  `json:"minimised_from,omitempty"`
	Sample        any             `json:"sample,omitempty"`
	Tape          []rt.Choice     `json:"tape"`
}

func engineFor(property string) Engine {
	e, ok := engines[property]
	if !ok {
		panic("no engine for property " + property)
	}
	return e
}

// matchViolation reports whether the record contains a violation with the same property, class and signature.
func matchViolation(rec RunRecord, v Violation) bool {
	for _, x := range rec.Violations {
		if x.Property == v.Property && x.Class == v.Class && x.Signature == v.Signature {
			return true
		}
	}
	return false
}

// minimise shrinks a violating tape while the same violation persists.
func minimise(t *testing.T, e Engine, batch string, runIdx uint64, extra json.RawMessage, tape []rt.Choice, v Violation, budget int) ([]rt.Choice, int) {
	attempts := 0
	try := func(cand []rt.Choice) bool {
		if attempts >= budget {
			return false
		}
		attempts++
		rec := e.Run(t, batch, rt.NewReplayTape(cand), runIdx, extra, nil)
		return matchViolation(rec, v)
	}
	cur := append([]rt.Choice(nil), tape...)
	zeroed := func(idx []int) []rt.Choice {
		cand := append([]rt.Choice(nil), cur...)
		for _, i := range idx {
			cand[i].V = 0
		}
		return cand
	}
	// 1. whole kinds at once (all schedule choices, all chunk sizes, ...)
	kinds := map[string][]int{}
	var kindOrder []string
	for i, c := range cur {
		if c.V != 0 {
			if _, ok := kinds[c.K]; !ok {
				kindOrder = append(kindOrder, c.K)
			}
			kinds[c.K] = append(kinds[c.K], i)
		}
	}
	sort.Slice(kindOrder, func(a, b int) bool { return len(kinds[kindOrder[a]]) > len(kinds[kindOrder[b]]) })
	for _, k := range kindOrder {
		if len(kinds[k]) < 2 {
			continue
		}
		if cand := zeroed(kinds[k]); try(cand) {
			cur = cand
		}
	}
	// 2. delta debugging over the remaining non-default choices
	var nz []int
	for i, c := range cur {
		if c.V != 0 {
			nz = append(nz, i)
		}
	}
	for chunk := (len(nz) + 1) / 2; chunk >= 1 && attempts < budget; chunk /= 2 {
		for i := 0; i < len(nz) && attempts < budget; {
			end := i + chunk
			if end > len(nz) {
				end = len(nz)
			}
			if cand := zeroed(nz[i:end]); try(cand) {
				cur = cand
				nz = append(nz[:i:i], nz[end:]...)
			} else {
				i = end
			}
		}
		if chunk == 1 {
			break
		}
	}
	// 3. drop trailing defaults
	for len(cur) > 0 && cur[len(cur)-1].V == 0 {
		cur = cur[:len(cur)-1]
	}
	return cur, attempts
}

func writeReplay(dir string, rf *ReplayFile) (string, error) {
	if err := os.MkdirAll(dir, 0o755); err != nil {
		return "", err
	}
	name := fmt.Sprintf("%s/%s-%s-%d-%d.json", dir, rf.Property, rf.Batch, rf.Seed, rf.RunIndex)
	if rf.Sub >= 0 {
		name = fmt.Sprintf("%s/%s-%s-%d-%d.%d.json", dir, rf.Property, rf.Batch, rf.Seed, rf.RunIndex, rf.Sub)
	}
	b, err := json.Marshal(rf)
	if err != nil {
		return "", err
	}
	return name, os.WriteFile(name, b, 0o644)
}

func sortedFeatureList(m map[string]bool) []string {
	var out []string
	for k, v := range m {
		if v {
			out = append(out, k)
		}
	}
	sort.Strings(out)
	return out
}
