package harness

import (
	"encoding/json"
	"fmt"
	"os"
	"reflect"
	"sort"
	"strings"
	"sync"
	"testing"

	"go.flow.arcalot.io/pluginsdk/schema"
	rt "go.flow.arcalot.io/pluginsdk/zzsimrt"
)

// ---------------------------------------------------------------- struct-mapped library schema

type libNested struct {
	A string `json:"a"`
	B int64  `json:"b"`
}

type libInner struct {
	Deep libNested `json:"deep"`
	Tag  string    `json:"tag"`
}

// libWrap has no defaults of its own, but its member has (the three-level default shape)
type libWrap struct {
	Deep libNested `json:"deep"`
}

type libRoot struct {
	Name   string         `json:"name"`
	Nested libNested      `json:"nested"`
	Inner  libInner       `json:"inner"`
	Size   int64          `json:"size"`
	Wait   int64          `json:"wait"`
	Ratio  float64        `json:"ratio"`
	Extra  map[string]any `json:"extra"` // a plain (map-based) sub-object with object-typed defaults of its own
	Items  []any          `json:"items"` // the same plain object as list item
	// a conflict declared on one of the two properties only
	Excl  string `json:"excl"`
	Other string `json:"other"`
	// a property that has been disabled (without a reason text): using it is an error
	Gone string `json:"gone"`
	// defaulted to {} ; the defaults of wrap.deep are filled in below it
	Wrap libWrap `json:"wrap"`
}

// buildLibScope builds a struct-mapped scope whose non-pointer object members carry defaults and whose
// sub-objects have defaults of their own, with unit-bearing numbers.
func buildLibScope() *schema.ScopeSchema {
	prop := func(t schema.Type, required bool, def *string) *schema.PropertySchema {
		return schema.NewPropertySchema(t, nil, required, nil, nil, nil, def, nil)
	}
	root := schema.NewStructMappedObjectSchema[libRoot]("libRoot", map[string]*schema.PropertySchema{
		"name":   prop(schema.NewStringSchema(nil, nil, nil), true, nil),
		"nested": prop(schema.NewRefSchema("libNested", nil), false, strp(`{"a":"from-root-default"}`)),
		"inner":  prop(schema.NewRefSchema("libInner", nil), false, strp(`{"tag":"t0"}`)),
		"size":   prop(schema.NewIntSchema(i64(0), nil, schema.UnitBytes), false, strp(`"1kB"`)),
		"wait":   prop(schema.NewIntSchema(i64(0), nil, schema.UnitDurationSeconds), false, strp(`"1m30s"`)),
		"ratio":  prop(schema.NewFloatSchema(f64(0), nil, schema.UnitPercentage), false, strp(`"50%"`)),
		"extra":  prop(schema.NewRefSchema("libPlain", nil), false, nil),
		"items":  prop(schema.NewListSchema(schema.NewRefSchema("libPlain", nil), nil, nil), false, nil),
		"excl":   schema.NewPropertySchema(schema.NewStringSchema(nil, nil, nil), nil, false, nil, nil, []string{"other"}, nil, nil),
		"other":  prop(schema.NewStringSchema(nil, nil, nil), false, nil),
		"wrap":   prop(schema.NewRefSchema("libWrap", nil), false, strp(`{}`)),
		"gone": func() *schema.PropertySchema {
			p := prop(schema.NewStringSchema(nil, nil, nil), false, nil)
			p.Disabled = true
			return p
		}(),
	})
	plain := schema.NewObjectSchema("libPlain", map[string]*schema.PropertySchema{
		"name":     prop(schema.NewStringSchema(nil, nil, nil), false, nil),
		"settings": schema.NewPropertySchema(schema.NewRefSchema("libSettings", nil), nil, false, nil, nil, []string{"legacy"}, nil, nil),
		"legacy":   schema.NewPropertySchema(schema.NewStringSchema(nil, nil, nil), nil, false, nil, nil, []string{"settings"}, nil, nil),
	})
	settings := schema.NewObjectSchema("libSettings", map[string]*schema.PropertySchema{
		"level": prop(schema.NewStringSchema(nil, nil, nil), false, strp(`"info"`)),
	})
	nested := schema.NewStructMappedObjectSchema[libNested]("libNested", map[string]*schema.PropertySchema{
		"a": prop(schema.NewStringSchema(nil, nil, nil), false, strp(`"nested-a"`)),
		"b": prop(schema.NewIntSchema(nil, nil, nil), false, strp(`7`)),
	})
	inner := schema.NewStructMappedObjectSchema[libInner]("libInner", map[string]*schema.PropertySchema{
		"deep": prop(schema.NewRefSchema("libNested", nil), false, strp(`{"b":9}`)),
		"tag":  prop(schema.NewStringSchema(nil, nil, nil), false, strp(`"tag-default"`)),
	})
	wrap := schema.NewStructMappedObjectSchema[libWrap]("libWrap", map[string]*schema.PropertySchema{
		"deep": prop(schema.NewRefSchema("libNested", nil), false, nil),
	})
	return schema.NewScopeSchema(root, nested, inner, plain, settings, wrap)
}

func libValues(s Src) any {
	v := map[string]any{"name": fmt.Sprintf("n%d", s.Choose("lv.name", 5))}
	if s.Choose("lv.nested", 3) == 1 {
		v["nested"] = map[string]any{"a": "given"}
	}
	if s.Choose("lv.inner", 3) == 1 {
		v["inner"] = map[string]any{"tag": "given"}
	}
	switch s.Choose("lv.size", 4) {
	case 1:
		v["size"] = "5MB"
	case 2:
		v["size"] = int64(77)
	case 3:
		v["size"] = "2kB 5B"
	}
	switch s.Choose("lv.wait", 4) {
	case 1:
		v["wait"] = "5m"
	case 2:
		v["wait"] = "2H 5s"
	case 3:
		v["wait"] = int64(3)
	}
	if s.Choose("lv.ratio", 3) == 1 {
		v["ratio"] = "12.5%"
	}
	if s.Choose("lv.gone", 5) == 4 {
		v["gone"] = "still used" // rejected: the property is disabled
	}
	switch s.Choose("lv.excl", 5) {
	case 1:
		v["excl"] = "e"
	case 2:
		v["other"] = "o"
	case 3:
		v["excl"], v["other"] = "e", "o" // violates the one-sided conflict rule
	}
	plainVal := func() map[string]any {
		switch s.Choose("lv.plain", 3) {
		case 1:
			return map[string]any{"name": "p", "legacy": "old"}
		case 2:
			return map[string]any{"name": "p", "settings": map[string]any{"level": "debug"}}
		}
		return map[string]any{"name": "p"}
	}
	if s.Choose("lv.extra", 2) == 1 {
		v["extra"] = plainVal()
	}
	if n := s.Choose("lv.items", 3); n > 0 {
		items := []any{}
		for i := 0; i < n; i++ {
			items = append(items, plainVal())
		}
		v["items"] = items
	}
	return v
}

// ---------------------------------------------------------------- plan

// RaceOp is one operation of a C13 trial.
type RaceOp struct {
	Kind string `json:"kind"` // unserialize | validate | serialize | compat-data | compat-self | roundtrip
	Arg  any    `json:"arg"`
}

// RacePlan is the pre-drawn part of a C13 trial.
type RacePlan struct {
	Lib     bool         `json:"lib"`     // the struct-mapped library scope instead of a generated one
	Rebuilt bool         `json:"rebuilt"` // the shared instance is rebuilt from a description (UnserializeScope)
	Recipe  *ScopeRecipe `json:"recipe,omitempty"`
	// Other: a single-feature mutation of the recipe; several goroutines compare the shared schema with ONE
	// instance of it at the same time (ValidateCompatibility of the same pair, concurrently)
	Other   *ScopeRecipe `json:"other,omitempty"`
	Workers [][]RaceOp   `json:"workers"`
}

func planRace(s Src, maxWorkers int, global bool) *RacePlan {
	p := &RacePlan{}
	if global || s.Choose("rc.lib", 3) == 0 {
		p.Lib = true
	} else {
		p.Recipe = GenScope(s, GenOpts{MaxObjects: 3, MaxProps: 4, MaxDepth: 2, Prefix: "R", NoRules: s.Choose("rc.norules", 2) == 0})
		p.Rebuilt = s.Choose("rc.rebuilt", 3) == 0
		if s.Choose("rc.other", 2) == 1 {
			p.Other, _ = mutateRecipe(s, p.Recipe)
		}
	}
	nw := 2 + s.Choose("rc.workers", maxWorkers-1)
	for w := 0; w < nw; w++ {
		n := 1 + s.Choose("rc.nops", 3)
		var ops []RaceOp
		for i := 0; i < n; i++ {
			op := RaceOp{Kind: []string{"unserialize", "unserialize", "roundtrip", "validate", "compat-data", "compat-self"}[s.Choose("rc.kind", 6)]}
			if p.Other != nil && s.Choose("rc.compatother", 3) == 2 {
				op.Kind = "compat-other"
			}
			if p.Lib {
				op.Arg = libValues(s)
			} else {
				vg := &ValGen{S: s, Scope: p.Recipe, Corrupt: chance(s, "rc.bad", 1, 6)}
				op.Arg = vg.Object(p.Recipe.Root, nil)
			}
			ops = append(ops, op)
		}
		p.Workers = append(p.Workers, ops)
	}
	return p
}

func (p *RacePlan) build() (sc *schema.ScopeSchema, why string) {
	defer func() {
		if r := recover(); r != nil {
			sc, why = nil, fmt.Sprint(r)
		}
	}()
	if p.Lib {
		return buildLibScope(), ""
	}
	s := BuildScope(p.Recipe)
	if !p.Rebuilt {
		return s, ""
	}
	d, err := selfDesc(s)
	if err != nil {
		return nil, err.Error()
	}
	r, err := schema.UnserializeScope(d)
	if err != nil {
		return nil, err.Error()
	}
	r.ApplySelf()
	return r, ""
}

// buildOther builds the producer schema of the plan's compat-other operations (nil if there is none).
func buildOther(p *RacePlan) (o *schema.ScopeSchema) {
	if p.Other == nil {
		return nil
	}
	defer func() {
		if recover() != nil {
			o = nil
		}
	}()
	return BuildScope(p.Other)
}

func raceEval(s *schema.ScopeSchema, op *RaceOp, other *schema.ScopeSchema) (res pureRes) {
	defer func() {
		if r := recover(); r != nil {
			res = pureRes{Panic: fmt.Sprint(r)}
		}
	}()
	switch op.Kind {
	case "unserialize":
		v, err := s.Unserialize(op.Arg)
		return pureRes{Err: err, Val: v}
	case "roundtrip":
		v, err := s.Unserialize(op.Arg)
		if err != nil {
			return pureRes{Err: err}
		}
		if err := s.Validate(v); err != nil {
			return pureRes{Err: fmt.Errorf("validate after unserialize: %w", err)}
		}
		out, err := s.Serialize(v)
		return pureRes{Err: err, Val: out}
	case "validate":
		return pureRes{Err: s.Validate(op.Arg)}
	case "compat-data":
		return pureRes{Err: s.ValidateCompatibility(op.Arg)}
	case "compat-self":
		return pureRes{Err: s.ValidateCompatibility(s)}
	case "compat-other":
		if other == nil {
			return pureRes{}
		}
		return pureRes{Err: s.ValidateCompatibility(other)}
	}
	return pureRes{}
}

// ---------------------------------------------------------------- engine

type raceEngine struct{}

func init() { engines["C13"] = raceEngine{} }

var siteRaceWorker = rt.H("harness.raceWorker")

// raceLogReports returns the text appended to the race detector's log since the last call.
var raceLogOffset int64

func newRaceReports() string {
	path := os.Getenv("VERIF_RACE_LOG")
	if path == "" {
		return ""
	}
	b, err := os.ReadFile(fmt.Sprintf("%s.%d", path, os.Getpid()))
	if err != nil {
		return ""
	}
	if int64(len(b)) <= raceLogOffset {
		return ""
	}
	out := string(b[raceLogOffset:])
	raceLogOffset = int64(len(b))
	return out
}

// raceSignature extracts, for the two conflicting accesses of the first report, the innermost frame that
// is not standard library or runtime code (the "owner" of the access). The report counts only if both
// owners are SDK functions.
func raceSignature(report string) (sig string, sdkBoth bool) {
	var owners []string
	owner := ""
	in := false
	flush := func() {
		if in {
			owners = append(owners, owner)
		}
		owner, in = "", false
	}
	for _, line := range strings.Split(report, "\n") {
		t := strings.TrimSpace(line)
		switch {
		case strings.HasPrefix(t, "Write at") || strings.HasPrefix(t, "Read at") || strings.HasPrefix(t, "Previous write at") || strings.HasPrefix(t, "Previous read at") ||
			strings.HasPrefix(t, "Atomic") || strings.HasPrefix(t, "Previous atomic"):
			flush()
			in = true
		case strings.HasPrefix(t, "Goroutine ") || t == "==================":
			flush()
		case in && owner == "" && strings.HasSuffix(t, "()"):
			fn := strings.TrimSuffix(t, "()")
			// standard library and runtime functions have no dot before the first slash / no slash at all
			first := fn
			if i := strings.Index(first, "/"); i >= 0 {
				first = first[:i]
			} else if j := strings.Index(first, "."); j >= 0 {
				first = first[:j]
			}
			if !strings.Contains(first, ".") && first != "verifharness" {
				continue // stdlib / runtime frame: look further out
			}
			owner = fn
		}
		if len(owners) >= 2 {
			break
		}
	}
	flush()
	sdkBoth = len(owners) >= 2
	var tops []string
	for i := 0; i < len(owners) && i < 2; i++ {
		o := owners[i]
		if !strings.Contains(o, "pluginsdk/") || strings.Contains(o, "/zzsimrt") {
			sdkBoth = false
		}
		if j := strings.Index(o, "pluginsdk/"); j >= 0 {
			o = o[j+len("pluginsdk/"):]
		}
		tops = append(tops, o)
	}
	sort.Strings(tops)
	return strings.Join(tops, " <-> "), sdkBoth
}

// watchRaces runs one simulation of another property's engine in a -race build. A data race whose two accesses
// are owned by SDK functions and at least one of which is a map operation is reported as a violation of that
// property: the Go runtime aborts the whole process when it notices unsynchronised map access ("fatal error:
// concurrent map read and map write"), which no recover can stop - the plugin dies or the engine-side caller
// never returns. Other SDK races are counted (probe sdk_races_not_on_maps), not judged.
func watchRaces(prop string, run func() RunRecord) RunRecord {
	before := rt.RaceErrors()
	_ = newRaceReports()
	rec := run()
	if rec.Probes == nil {
		rec.Probes = map[string]int{}
	}
	if n := rt.RaceErrors() - before; n > 0 {
		rep := newRaceReports()
		sig, sdk := raceSignature(rep)
		onMap := raceOnMap(rep)
		switch {
		case (sdk && onMap) || rep == "":
			rec.Violations = append([]Violation{{prop, "race", "concurrent map access: " + sig, fmt.Sprintf("%d data race report(s) in this run; unsynchronised map access is fatal to the process (concurrent map read and map write); first report:\n%s", n, trunc(rep, 3000))}}, rec.Violations...)
			rec.Outcome = "violation"
		case sdk:
			rec.Probes["sdk_races_not_on_maps"] += n
		default:
			rec.Probes["race_reports_outside_sdk"] += n
		}
	}
	if !rt.RaceBuild {
		rec.Probes["not_a_race_build"]++
	}
	return rec
}

// raceOnMap tells whether one of the two accesses of the first report is a runtime map operation.
func raceOnMap(report string) bool {
	lines := strings.Split(report, "\n")
	seen := 0
	for i, line := range lines {
		t := strings.TrimSpace(line)
		if strings.HasPrefix(t, "Write at") || strings.HasPrefix(t, "Read at") || strings.HasPrefix(t, "Previous write at") || strings.HasPrefix(t, "Previous read at") {
			seen++
			if i+1 < len(lines) && strings.HasPrefix(strings.TrimSpace(lines[i+1]), "runtime.map") {
				return true
			}
			if seen >= 2 {
				break
			}
		}
	}
	return false
}

func (raceEngine) Run(t *testing.T, batch string, tape *rt.Tape, runIdx uint64, extra json.RawMessage, trace func(string)) RunRecord {
	before := rt.RaceErrors()
	_ = newRaceReports()
	var rec RunRecord
	switch {
	case strings.HasPrefix(batch, "c13.steps"):
		rec = stepsEngine{}.Run(t, "c11.random", tape, runIdx, nil, trace)
	case strings.HasPrefix(batch, "c13.session"):
		rec = sessionEngine{}.Run(t, "c13.session", tape, runIdx, nil, trace)
	default:
		rec = raceOps(t, batch, tape, runIdx, trace)
	}
	// The reused engines compare every call with the same call made alone / in process. In this check such a
	// difference is exactly C13's "every call returns what it would return in isolation", so it is reported
	// under C13 as well (the original entry is kept for the evidence of the other property).
	if strings.HasPrefix(batch, "c13.steps") || strings.HasPrefix(batch, "c13.session") {
		var own []Violation
		for _, v := range rec.Violations {
			if (v.Property == "C11" || v.Property == "C05") && (v.Class == "mismatch" || v.Class == "duplicate" || v.Class == "lost") {
				own = append(own, Violation{"C13", v.Class, "concurrent-use:" + v.Signature, "found by the " + v.Property + " oracle under concurrent use: " + v.Detail})
			}
		}
		rec.Violations = append(own, rec.Violations...)
	}
	if n := rt.RaceErrors() - before; n > 0 {
		rep := newRaceReports()
		sig, sdk := raceSignature(rep)
		if sdk || rep == "" {
			rec.Violations = append([]Violation{{"C13", "race", sig, fmt.Sprintf("%d data race report(s) in this trial; first report:\n%s", n, trunc(rep, 3000))}}, rec.Violations...)
			rec.Outcome = "violation"
		} else {
			if rec.Probes == nil {
				rec.Probes = map[string]int{}
			}
			rec.Probes["race_reports_outside_sdk"] += n
		}
	}
	if !rt.RaceBuild {
		if rec.Probes == nil {
			rec.Probes = map[string]int{}
		}
		rec.Probes["not_a_race_build"]++
	}
	return rec
}

func raceOps(t *testing.T, batch string, tape *rt.Tape, runIdx uint64, trace func(string)) RunRecord {
	rec := RunRecord{Faults: map[string]int{}, Probes: map[string]int{}}
	maxWorkers := 4
	if batch == "c13.many" {
		maxWorkers = 16
	}
	plan := planRace(tape, maxWorkers, batch == "c13.global")
	strat, stratName := drawStrategy(tape)
	results := make([][]pureRes, len(plan.Workers))
	var shared, other *schema.ScopeSchema
	buildWhy := ""
	var simRef *rt.Sim
	out := rt.Run(t, rt.Config{Tape: tape, Strategy: strat, MaxSteps: 2000000, Trace: trace, LocalSeams: true}, func(s *rt.Sim) {
		simRef = s
		shared, buildWhy = plan.build()
		if shared == nil {
			return
		}
		other = buildOther(plan)
		var wg sync.WaitGroup
		for w := range plan.Workers {
			ops := plan.Workers[w]
			results[w] = make([]pureRes, len(ops))
			res := results[w]
			wg.Add(1)
			rt.GoNamed("worker", func() {
				defer wg.Done()
				for i := range ops {
					rt.Yield(siteRaceWorker)
					res[i] = raceEval(shared, &ops[i], other)
				}
			})
		}
		wg.Wait()
	})
	rec.Steps, rec.Switches, rec.Preempt = out.Steps, out.Switches, out.Preemptions
	rec.SchedSig = fmt.Sprintf("%016x", out.SchedSig)
	rec.LogHash = fmt.Sprintf("%016x", out.LogHash)
	rec.Strategy = stratName
	rec.Nontrivial = out.Preemptions > 0
	if simRef != nil {
		for s := range simRef.SitesSeen {
			if s >= 0 && s < len(rt.SiteYield) {
				rec.Sites = append(rec.Sites, s)
			}
		}
		sort.Ints(rec.Sites)
		for h := range simRef.PairsSeen {
			rec.PairHashes = append(rec.PairHashes, h)
		}
		sort.Slice(rec.PairHashes, func(i, j int) bool { return rec.PairHashes[i] < rec.PairHashes[j] })
	}
	kind := "generated"
	if plan.Lib {
		kind = "struct-mapped-library"
	}
	if plan.Rebuilt {
		kind = "rebuilt-from-description"
	}
	rec.Features = []string{kind}
	nops := 0
	var wl []string
	for w, ops := range plan.Workers {
		for _, op := range ops {
			nops++
			wl = append(wl, fmt.Sprintf("worker%d: %s(%s)", w, op.Kind, short(op.Arg)))
		}
	}
	rec.Sample = map[string]any{"schema": kind, "workers": len(plan.Workers), "ops": wl, "strategy": stratName, "steps": out.Steps}
	if shared == nil {
		rec.Outcome = "excluded"
		rec.Reason = "schema cannot be built: " + trunc(buildWhy, 100)
		return rec
	}
	if out.Budget {
		rec.Outcome = "infra"
		rec.Reason = fmt.Sprintf("step budget exceeded (%d steps)", out.Steps)
		return rec
	}
	if out.BubblePanic != "" && !out.Deadlock {
		rec.Outcome = "infra"
		rec.Reason = "bubble panic: " + trunc(out.BubblePanic, 3000)
		return rec
	}
	add := func(class, sig, detail string) {
		rec.Violations = append(rec.Violations, Violation{"C13", class, sig, detail})
	}
	for _, p := range out.Panics {
		add("panic", panicSignature(p), fmt.Sprintf("goroutine %s panicked: %s frames=%v", p.G, p.Value, p.Frames))
	}
	if out.Deadlock {
		add("deadlock", blockedSignature(out.Blocked, "schema/"), fmt.Sprint(out.Blocked))
	}
	if len(rec.Violations) == 0 {
		for w, ops := range plan.Workers {
			for i := range ops {
				fresh, _ := plan.build()
				if fresh == nil {
					continue
				}
				want := raceEval(fresh, &ops[i], buildOther(plan))
				got := results[w][i]
				if !sameOutcome(want, got) {
					add("mismatch", "result-differs-from-isolation:"+ops[i].Kind, fmt.Sprintf("worker %d op %d %s(%s): in isolation %s, concurrently %s", w, i, ops[i].Kind, short(ops[i].Arg), describeRes(want), describeRes(got)))
				} else if want.Err == nil && !reflect.DeepEqual(want.Val, got.Val) {
					add("mismatch", "result-differs-from-isolation:"+ops[i].Kind, "values differ")
				}
			}
		}
	}
	if len(rec.Violations) > 0 {
		rec.Outcome = "violation"
	} else {
		rec.Outcome = "ok"
	}
	return rec
}
