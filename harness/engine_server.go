package harness

import (
	"bytes"
	"context"
	"encoding/json"
	"fmt"
	"io"
	"sort"
	"strings"
	"testing"
	"time"

	"github.com/fxamacker/cbor/v2"
	"go.flow.arcalot.io/pluginsdk/atp"
	rt "go.flow.arcalot.io/pluginsdk/zzsimrt"
)

// ---------------------------------------------------------------- script

// Elem is one element of a scripted client's byte stream.
type Elem struct {
	Kind      string `json:"kind"`
	RunID     string `json:"run_id,omitempty"`
	Step      string `json:"step,omitempty"`
	Bytes     []byte `json:"-"`
	Len       int    `json:"len"`
	Accepted  bool   `json:"accepted,omitempty"`  // a well-formed work-start with run and step ID: must get exactly one terminal message
	Malformed bool   `json:"malformed,omitempty"` // work-start envelope with a run ID whose body cannot be decoded
	Problem   bool   `json:"problem,omitempty"`   // must be reported as an error
	Fatal     bool   `json:"fatal,omitempty"`     // the envelope itself cannot be decoded: the server stops reading
	Done      bool   `json:"done,omitempty"`      // client-done
	Beh       string `json:"beh,omitempty"`
}

var canonEnc = func() cbor.EncMode {
	m, err := cbor.CanonicalEncOptions().EncMode()
	if err != nil {
		panic(err)
	}
	return m
}()

func enc(v any) []byte {
	b, err := canonEnc.Marshal(v)
	if err != nil {
		panic(err)
	}
	return b
}

// ServerPlan is the pre-drawn part of a C07 run.
type ServerPlan struct {
	Plugin     *PluginRecipe        `json:"plugin"`
	Elems      []Elem               `json:"elems"`
	Behs       map[string]Behaviour `json:"behaviours"`
	C2S        rt.PipeConfig        `json:"c2s"`
	S2C        rt.PipeConfig        `json:"s2c"`
	CloseAtEnd bool                 `json:"close_at_end"` // the client closes its write side after the script (else it just stops sending, then closes after a long while)
	// CancelMs: the context passed to RunATPServer is cancelled (-1 never, 0 before the server starts, n after n fake ms)
	CancelMs int             `json:"cancel_ms"`
	Features map[string]bool `json:"features"`
}

// ServerOpts selects grammar features.
type ServerOpts struct {
	Hostile    bool // invalid messages
	Garbage    bool // arbitrary CBOR and junk bytes
	Signals    bool
	UnknownSig bool // signals with unknown signal IDs (hits a known server defect)
	AnyDataSig bool // valid signals to a step with `any` step data and no initializer
	Misbehave  bool
	Slow       bool
	DoneTwice  bool
	MaxElems   int
	Cancel     bool // the server's context is cancelled at some point (not a client action: restricted oracle)
}

func serverOptsFor(batch string) ServerOpts {
	switch batch {
	case "c07.valid":
		return ServerOpts{Signals: true, Slow: true, MaxElems: 8}
	case "c07.steps":
		return ServerOpts{Signals: true, Slow: true, Misbehave: true, MaxElems: 8}
	case "c07.hostile", "c07.race":
		return ServerOpts{Hostile: true, Signals: true, Slow: true, Misbehave: true, DoneTwice: true, MaxElems: 10}
	case "c07.garbage":
		return ServerOpts{Hostile: true, Garbage: true, Signals: true, Misbehave: true, MaxElems: 8}
	case "c07.unknownsig":
		return ServerOpts{Signals: true, UnknownSig: true, MaxElems: 6}
	case "c07.anydata":
		return ServerOpts{Signals: true, AnyDataSig: true, MaxElems: 6}
	case "c07.crash":
		return ServerOpts{Hostile: true, Signals: true, Slow: true, Misbehave: true, MaxElems: 7}
	case "c07.cancel":
		return ServerOpts{Signals: true, Slow: true, Misbehave: true, MaxElems: 8, Cancel: true}
	}
	return ServerOpts{MaxElems: 6}
}

func runtimeMsg(id uint32, runID string, data any) []byte {
	return enc(map[string]any{"id": id, "run_id": runID, "data": data})
}

// PlanServer draws a script.
func PlanServer(s Src, o ServerOpts) *ServerPlan {
	p := &ServerPlan{Features: map[string]bool{}, Behs: map[string]Behaviour{}}
	p.Plugin = GenPlugin(s, false)
	for i := range p.Plugin.Steps {
		if o.AnyDataSig {
			p.Plugin.Steps[i].HasSignals = true
			p.Plugin.Steps[i].AnyData = true
		}
	}
	p.C2S = drawPipe(s, "c2s", false)
	p.S2C = drawPipe(s, "s2c", false)
	p.CloseAtEnd = s.Choose("sv.closeatend", 4) != 3
	p.CancelMs = -1
	if o.Cancel {
		p.CancelMs = []int{0, 0, 1, 50, 2000, 70000}[s.Choose("sv.cancelms", 6)]
	}
	p.Elems = append(p.Elems, Elem{Kind: "start", Bytes: enc(nil)})
	n := 1 + s.Choose("sv.nelems", o.MaxElems)
	runNo := 0
	var liveRuns []string
	var liveSteps []string
	add := func(e Elem) {
		e.Len = len(e.Bytes)
		p.Elems = append(p.Elems, e)
		p.Features[e.Kind] = true
	}
	for i := 0; i < n; i++ {
		kinds := []string{"ws_valid", "ws_valid", "ws_valid", "ws_badinput"}
		if o.Signals {
			kinds = append(kinds, "sig_valid", "sig_valid")
		}
		if o.Hostile {
			kinds = append(kinds, "ws_unknown_step", "ws_empty_run", "ws_empty_step", "ws_dup_run", "ws_bad_body", "sig_unknown_run", "sig_bad_data", "sig_empty_run", "sig_bad_body", "unknown_msg_id", "bad_envelope")
		}
		if o.UnknownSig {
			kinds = append(kinds, "sig_unknown_id", "sig_unknown_id")
		}
		if o.Garbage {
			kinds = append(kinds, "arbitrary_cbor", "arbitrary_cbor", "junk_bytes")
		}
		k := kinds[s.Choose("sv.kind", len(kinds))]
		st := &p.Plugin.Steps[s.Choose("sv.step", len(p.Plugin.Steps))]
		switch k {
		case "ws_valid", "ws_badinput", "ws_unknown_step", "ws_dup_run":
			runNo++
			runID := fmt.Sprintf("run-%d", runNo)
			if k == "ws_dup_run" {
				if len(liveRuns) == 0 {
					k = "ws_valid"
				} else {
					runID = liveRuns[s.Choose("sv.dup", len(liveRuns))]
				}
			}
			nonce := fmt.Sprintf("nonce-%d", runNo)
			vg := &ValGen{S: s, Scope: &st.Input, Corrupt: k == "ws_badinput"}
			in := vg.Object(st.Input.Root, map[string]any{"nonce": nonce})
			beh := Behaviour{Kind: "ok"}
			switch {
			case chance(s, "sv.alt", 1, 5):
				beh.Kind = "alt"
			case chance(s, "sv.err", 1, 6):
				beh.Kind = "error"
			case o.Misbehave && chance(s, "sv.mis", 1, 3):
				beh.Kind = []string{"undeclared", "baddata", "panic"}[s.Choose("sv.miskind", 3)]
				p.Features["beh_"+beh.Kind] = true
			}
			if o.Slow && chance(s, "sv.slow", 1, 3) {
				beh.SleepMs = 1 + s.Choose("sv.slowms", 3000)
				p.Features["slow_step"] = true
			}
			p.Behs[nonce] = beh
			stepID := st.ID
			if k == "ws_unknown_step" {
				stepID = "no-such-step"
			}
			add(Elem{Kind: k, RunID: runID, Step: stepID, Accepted: true, Beh: beh.Kind,
				Bytes: runtimeMsg(atp.MessageTypeWorkStart, runID, map[string]any{"id": stepID, "config": in})})
			if k != "ws_unknown_step" {
				liveRuns = append(liveRuns, runID)
				liveSteps = append(liveSteps, st.ID)
			}
		case "ws_empty_run":
			add(Elem{Kind: k, Problem: true, Bytes: runtimeMsg(atp.MessageTypeWorkStart, "", map[string]any{"id": st.ID, "config": map[string]any{}})})
		case "ws_empty_step":
			runNo++
			add(Elem{Kind: k, Problem: true, RunID: fmt.Sprintf("run-%d", runNo), Bytes: runtimeMsg(atp.MessageTypeWorkStart, fmt.Sprintf("run-%d", runNo), map[string]any{"id": "", "config": map[string]any{}})})
		case "ws_bad_body":
			runNo++
			runID := fmt.Sprintf("run-%d", runNo)
			body := []any{map[string]any{"id": int64(17), "config": 1}, "just a string", []any{1, 2}}[s.Choose("sv.badbody", 3)]
			add(Elem{Kind: k, RunID: runID, Malformed: true, Problem: true, Bytes: runtimeMsg(atp.MessageTypeWorkStart, runID, body)})
		case "sig_valid", "sig_unknown_id", "sig_bad_data":
			if len(liveRuns) == 0 {
				i--
				if s.Choose("sv.retry", 3) == 0 {
					i++
				}
				continue
			}
			j := s.Choose("sv.sigrun", len(liveRuns))
			var hasSig bool
			for _, sr := range p.Plugin.Steps {
				if sr.ID == liveSteps[j] && sr.HasSignals {
					hasSig = true
				}
			}
			sigID := "poke"
			data := any(map[string]any{"k": int64(s.Choose("sv.sigk", 1000))})
			e := Elem{Kind: k, RunID: liveRuns[j]}
			if k == "sig_unknown_id" || !hasSig {
				if !o.UnknownSig {
					continue
				}
				e.Kind = "sig_unknown_id"
				sigID = "no-such-signal"
				e.Problem = true
			}
			if k == "sig_bad_data" {
				data = map[string]any{"k": "not a number"}
				e.Problem = true
			}
			e.Bytes = runtimeMsg(atp.MessageTypeSignal, liveRuns[j], map[string]any{"signal_id": sigID, "data": data})
			add(e)
		case "sig_unknown_run":
			add(Elem{Kind: k, Problem: true, Bytes: runtimeMsg(atp.MessageTypeSignal, "never-started", map[string]any{"signal_id": "poke", "data": map[string]any{"k": 1}})})
		case "sig_empty_run":
			add(Elem{Kind: k, Problem: true, Bytes: runtimeMsg(atp.MessageTypeSignal, "", map[string]any{"signal_id": "poke", "data": map[string]any{"k": 1}})})
		case "sig_bad_body":
			add(Elem{Kind: k, Problem: true, Bytes: runtimeMsg(atp.MessageTypeSignal, "run-1", []any{"not", "a", "signal"})})
		case "unknown_msg_id":
			add(Elem{Kind: k, Problem: true, Bytes: runtimeMsg(uint32(6+s.Choose("sv.msgid", 90)), "run-x", map[string]any{})})
		case "bad_envelope":
			var b []byte
			switch s.Choose("sv.badenv", 4) {
			case 0:
				b = enc(map[string]any{"id": "one", "run_id": "r", "data": map[string]any{}})
			case 1:
				b = enc(map[string]any{"id": 1, "run_id": int64(5), "data": map[string]any{}})
			case 2:
				b = enc([]any{1, "r", map[string]any{}})
			case 3:
				b = enc("hello")
			}
			add(Elem{Kind: k, Fatal: true, Problem: true, Bytes: b})
		case "arbitrary_cbor":
			var b []byte
			fatal := true
			switch s.Choose("sv.arb", 7) {
			case 0:
				b = enc(cbor.Tag{Number: 1, Content: int64(1700000000)})
			case 1:
				b = []byte{0xc2, 0x49, 1, 0, 0, 0, 0, 0, 0, 0, 0} // bignum
			case 2:
				b = enc([]byte("byte string"))
			case 3:
				b = []byte{0xbf, 0x62, 'i', 'd', 0x01, 0xff} // indefinite-length map {id:1}
				fatal = false                                // a map: decodes as a runtime message without run id
			case 4:
				b = append(bytes.Repeat([]byte{0x81}, 1000), 0x00) // nesting 1000 deep
			case 5:
				b = enc(map[string]any{}) // empty map: message id 0
				fatal = false
			case 6:
				b = enc(3.5)
			}
			add(Elem{Kind: k, Fatal: fatal, Problem: true, Bytes: b})
		case "junk_bytes":
			nb := 1 + s.Choose("sv.junklen", 40)
			b := make([]byte, nb)
			b[0] = 0xff // a "break" where an item must start: never well-formed
			for i := 1; i < nb; i++ {
				b[i] = byte(s.Choose("sv.junk", 256))
			}
			add(Elem{Kind: k, Fatal: true, Problem: true, Bytes: b})
		}
	}
	if chance(s, "sv.done", 3, 5) {
		add(Elem{Kind: "done", Done: true, Bytes: runtimeMsg(atp.MessageTypeClientDone, "", map[string]any{})})
		if o.DoneTwice && chance(s, "sv.done2", 1, 3) {
			add(Elem{Kind: "after_done", Bytes: runtimeMsg(atp.MessageTypeClientDone, "", map[string]any{})})
		}
	}
	for i := range p.Elems {
		p.Elems[i].Len = len(p.Elems[i].Bytes)
	}
	return p
}

func (p *ServerPlan) stream() []byte {
	var b []byte
	for _, e := range p.Elems {
		b = append(b, e.Bytes...)
	}
	return b
}

// ServerFault is the fault of one sub-run.
type ServerFault struct {
	Base     uint64 `json:"base"`
	Kind     string `json:"kind"` // "", eof, ioerr, garbage, reader-close, reader-stall
	At       int64  `json:"at"`
	JunkSeed int    `json:"junk_seed,omitempty"`
}

// ServerObs is what a C07 run observed.
type ServerObs struct {
	Errs           []*atp.ServerError
	Returned       bool
	Output         []byte
	Rec            *Recorder
	C2S, S2C       *rt.Pipe
	WriterErr      error
	Delivered      []byte // the bytes the server could read: script prefix up to the fault (+ junk)
	ServerDied     bool
	DeliveredSet   bool
	ReaderClosedAt int64 // -1 = never
	// the state of the server's input at the moment RunATPServer returned
	ConsumedAtReturn     int64
	WriterClosedAtReturn bool
	ReadFaultAtReturn    bool
}

var siteScript = rt.H("harness.scriptClient")

func runServerPlan(t *testing.T, plan *ServerPlan, fault ServerFault, tape *rt.Tape, strat rt.Strategy, trace func(string)) (rt.Outcome, *ServerObs, *rt.Sim) {
	obs := &ServerObs{ReaderClosedAt: -1}
	var simRef *rt.Sim
	var junkUsed []byte
	onPanic := func(ev rt.PanicEvent) {
		if strings.Contains(ev.Kind, "server") && obs.C2S != nil {
			// the plugin process dies
			obs.ServerDied = true
			obs.C2S.KillRead()
			obs.S2C.KillWrite()
		}
	}
	defer func() {
		if obs.C2S == nil {
			return
		}
		rec := obs.C2S.Record
		obs.DeliveredSet = true
		switch fault.Kind {
		case "eof", "ioerr":
			if int64(len(rec)) > fault.At {
				rec = rec[:fault.At]
			}
			obs.Delivered = append([]byte(nil), rec...)
		case "garbage":
			if int64(len(rec)) > fault.At {
				rec = rec[:fault.At]
			}
			obs.Delivered = append(append([]byte(nil), rec...), junkUsed...)
			if int64(len(obs.C2S.Record)) < fault.At {
				obs.Delivered = append([]byte(nil), obs.C2S.Record...)
			}
		default:
			obs.Delivered = append([]byte(nil), rec...)
		}
	}()
	out := rt.Run(t, rt.Config{Tape: tape, Strategy: strat, MaxSteps: sessionMaxSteps(), Trace: trace, OnPanic: onPanic, LocalSeams: rt.RaceBuild}, func(s *rt.Sim) {
		simRef = s
		obs.Rec = newRecorder(plan.Behs)
		plugin := BuildPlugin(plan.Plugin, obs.Rec)
		obs.C2S = rt.NewPipe(plan.C2S)
		obs.S2C = rt.NewPipe(plan.S2C)
		switch fault.Kind {
		case "eof":
			obs.C2S.SetFault(rt.PipeFault{Kind: rt.FaultEOF, At: fault.At})
		case "ioerr":
			obs.C2S.SetFault(rt.PipeFault{Kind: rt.FaultIOErr, At: fault.At})
		case "garbage":
			junk := make([]byte, 24)
			x := uint64(fault.JunkSeed)*2654435761 + 12345
			for i := range junk {
				x = x*6364136223846793005 + 1442695040888963407
				junk[i] = byte(x >> 33)
			}
			if fault.JunkSeed%2 == 0 {
				junk = []byte("panic: something\nwent wrong\n")
			}
			junkUsed = junk
			obs.C2S.SetFault(rt.PipeFault{Kind: rt.FaultGarbage, At: fault.At, Junk: junk})
		}
		ctx, cancel := context.WithCancel(context.Background())
		defer cancel()
		if plan.CancelMs == 0 {
			cancel()
		} else if plan.CancelMs > 0 {
			rt.GoNamed("canceller", func() {
				time.Sleep(time.Duration(plan.CancelMs) * time.Millisecond)
				rt.Yield(siteScript)
				cancel()
			})
		}
		serverDone := make(chan struct{})
		rt.GoNamed("server", func() {
			obs.Errs = atp.RunATPServer(ctx, rt.ReadEnd{P: obs.C2S}, rt.WriteEnd{P: obs.S2C}, plugin)
			obs.ConsumedAtReturn, obs.WriterClosedAtReturn, obs.ReadFaultAtReturn = obs.C2S.ReadState()
			obs.Returned = true
			obs.C2S.KillRead()
			obs.S2C.KillWrite()
			close(serverDone)
		})
		readerDone := make(chan struct{})
		rt.GoNamed("drain", func() {
			defer close(readerDone)
			buf := make([]byte, 700)
			for {
				if fault.Kind == "reader-close" && int64(len(obs.Output)) >= fault.At {
					obs.ReaderClosedAt = int64(len(obs.Output))
					_ = obs.S2C.CloseRead()
					return
				}
				if fault.Kind == "reader-stall" && int64(len(obs.Output)) >= fault.At {
					obs.ReaderClosedAt = int64(len(obs.Output))
					// stop reading for ten fake minutes (both sides of the 60 s send timeout), then go away
					time.Sleep(10 * time.Minute)
					rt.Yield(siteScript)
					_ = obs.S2C.CloseRead()
					return
				}
				n, err := obs.S2C.Read(buf)
				obs.Output = append(obs.Output, buf[:n]...)
				if err != nil {
					return
				}
			}
		})
		// the scripted client writes its elements one Write each
		for _, e := range plan.Elems {
			rt.Yield(siteScript)
			if _, err := obs.C2S.Write(e.Bytes); err != nil {
				obs.WriterErr = err
				break
			}
		}
		rt.Yield(siteScript)
		if plan.CloseAtEnd || obs.WriterErr != nil {
			_ = obs.C2S.CloseWrite()
		} else {
			// a client that stays connected but silent; it goes away after five fake minutes
			time.Sleep(5 * time.Minute)
			rt.Yield(siteScript)
			_ = obs.C2S.CloseWrite()
		}
		rt.Yield(siteWaitServer)
		<-serverDone
		rt.Yield(siteScript)
		<-readerDone
		rt.Yield(siteScript)
	})
	return out, obs, simRef
}

// ---------------------------------------------------------------- oracle

type outMsg struct {
	ID    uint64
	RunID string
	Data  map[any]any
	Raw   any
}

// parseServerOutput parses the server's output as hello + runtime messages.
func parseServerOutput(b []byte) (hello bool, msgs []outMsg, err error) {
	dec := cbor.NewDecoder(bytes.NewReader(b))
	first := true
	for {
		var item any
		if e := dec.Decode(&item); e != nil {
			if e == io.EOF {
				return hello, msgs, nil
			}
			return hello, msgs, fmt.Errorf("item %d of the output is not well-formed CBOR: %v", len(msgs)+1, e)
		}
		m, ok := item.(map[any]any)
		if !ok {
			return hello, msgs, fmt.Errorf("item %d of the output is not a map: %T", len(msgs)+1, item)
		}
		if first {
			first = false
			if _, isHello := m["version"]; isHello {
				hello = true
				continue
			}
		}
		id, ok1 := m["id"].(uint64)
		run, ok2 := m["run_id"].(string)
		data, _ := m["data"].(map[any]any)
		if !ok1 || !ok2 {
			return hello, msgs, fmt.Errorf("item %d of the output is not a runtime message: %v", len(msgs)+1, short(m))
		}
		msgs = append(msgs, outMsg{ID: id, RunID: run, Data: data, Raw: item})
	}
}

func serverBlockedSignature(b []rt.BlockedG) string {
	return blockedSignature(b, "atp/server.go", "schema/")
}

// JudgeServer evaluates the C07 oracle.
func JudgeServer(plan *ServerPlan, fault ServerFault, obs *ServerObs, out rt.Outcome) []Violation {
	var vs []Violation
	add := func(class, sig, detail string) { vs = append(vs, Violation{"C07", class, sig, detail}) }
	for _, p := range out.Panics {
		if strings.Contains(p.Kind, "server") {
			add("panic", panicSignature(p), fmt.Sprintf("goroutine %s panicked: %s frames=%v", p.G, p.Value, p.Frames))
		} else {
			vs = append(vs, Violation{"HARNESS", "panic", panicSignature(p), p.Value})
		}
	}
	if out.Deadlock && !obs.ServerDied {
		var det []string
		serverStuck := false
		for _, b := range out.Blocked {
			det = append(det, fmt.Sprintf("%s in %s [%s]", b.Name, b.Func, b.Wait))
			if strings.HasPrefix(b.Func, "atp/server.go") || strings.HasPrefix(b.Func, "schema/") {
				serverStuck = true
			}
		}
		if serverStuck || !obs.Returned {
			add("deadlock", serverBlockedSignature(out.Blocked), "input has ended and every handler returned, but the server is blocked: "+strings.Join(det, "; "))
		} else {
			vs = append(vs, Violation{"HARNESS", "deadlock", blockedSignature(out.Blocked, "harness."), strings.Join(det, "; ")})
		}
	}
	if len(vs) > 0 {
		return vs
	}
	if !obs.Returned {
		add("deadlock", "server-not-returned", "RunATPServer did not return")
		return vs
	}
	if !obs.DeliveredSet && obs.C2S != nil {
		obs.Delivered = obs.C2S.Record
	}
	// ---- what did the server get to see? Reference-decode the byte stream as it was
	// actually delivered (script prefix up to the fault, plus the junk of a garbage fault).
	delivered := obs.Delivered
	model := modelClientStream(delivered)
	accepted, malformed, problems, processed := model.accepted, model.malformed, model.problems, model.processed
	limit := int64(len(delivered))
	outputIntact := obs.ReaderClosedAt < 0
	hello, msgs, perr := parseServerOutput(obs.Output)
	if perr != nil && outputIntact {
		add("garbled-output", "output-not-a-message-sequence", perr.Error())
		return vs
	}
	if obs.S2C.MaxInflight > 1 && outputIntact {
		add("overlap", "server-writes-overlap", fmt.Sprintf("%d Write calls in flight on the server's output", obs.S2C.MaxInflight))
	}
	if !outputIntact {
		return vs // (3) and (4) are waived once the script broke the output side
	}
	// the server returns once its input has ended: not while the client is still connected and everything it
	// sent so far was fine (the plugin process would exit under the client's feet)
	if obs.C2S != nil && !obs.ServerDied && !obs.WriterClosedAtReturn && !obs.ReadFaultAtReturn {
		upTo := obs.ConsumedAtReturn
		if upTo > int64(len(delivered)) {
			upTo = int64(len(delivered))
		}
		seen := modelClientStream(delivered[:upTo])
		if !seen.done && (!seen.fatal || seen.truncated) {
			add("mismatch", "returned-while-input-open", fmt.Sprintf("RunATPServer returned after reading %d bytes although the client had neither closed its stream nor sent client-done nor anything undecodable (processed so far: %v; context cancelled at: %d ms; server errors=%v)", upTo, seen.processed, plan.CancelMs, errList(obs.Errs)))
			return vs
		}
	}
	if plan.CancelMs >= 0 {
		// cancelling the server's context is not a client action: after it the server deliberately stops reporting
		// (its closure handler leaves), so the accounting of terminal messages below is not applied
		return vs
	}
	_ = limit
	if model.startSeen && !hello {
		add("mismatch", "no-hello", "the start-output message was delivered but no hello came back")
		return vs
	}
	workDone := map[string]int{}
	terminal := map[string]int{}
	errMsgs := 0
	for _, m := range msgs {
		switch m.ID {
		case uint64(atp.MessageTypeWorkDone):
			workDone[m.RunID]++
			terminal[m.RunID]++
		case uint64(atp.MessageTypeError):
			errMsgs++
			if sf, _ := m.Data["step_fatal"].(bool); sf {
				if srv, _ := m.Data["server_fatal"].(bool); !srv && m.RunID != "" {
					terminal[m.RunID]++
				}
			}
		}
	}
	runs := map[string]bool{}
	for r := range accepted {
		runs[r] = true
	}
	for r := range malformed {
		runs[r] = true
	}
	for r := range terminal {
		runs[r] = true
	}
	var rs []string
	for r := range runs {
		rs = append(rs, r)
	}
	sort.Strings(rs)
	for _, r := range rs {
		a, m, tm, wd := accepted[r], malformed[r], terminal[r], workDone[r]
		switch {
		case a == 0 && m == 0 && tm > 0:
			add("mismatch", "answer-for-unknown-run", fmt.Sprintf("run %q was never started by the script but got %d terminal message(s)", r, tm))
		case wd > a:
			add("duplicate", "too-many-work-done", fmt.Sprintf("run %q: %d accepted work-start(s), %d work-done message(s)", r, a, wd))
		case tm < a:
			add("lost", "accepted-run-not-answered", fmt.Sprintf("run %q: %d accepted work-start(s) but %d terminal message(s); processed=%v server errors=%v", r, a, tm, processed, errList(obs.Errs)))
		case tm > a+m:
			add("duplicate", "too-many-terminal-messages", fmt.Sprintf("run %q: %d accepted + %d malformed work-start(s), %d terminal messages", r, a, m, tm))
		}
	}
	if problems > 0 && errMsgs == 0 && len(obs.Errs) == 0 {
		add("mismatch", "problem-not-reported", fmt.Sprintf("%d problem element(s) processed (%v) but neither an error message nor a ServerError was produced", problems, processed))
	}
	return vs
}

// clientModel is what a reference decoder makes of a client's byte stream.
type clientModel struct {
	startSeen bool
	accepted  map[string]int // run id -> well-formed work-starts (type 1, non-empty run and step id, decodable body)
	malformed map[string]int // run id -> work-start envelopes whose body cannot be decoded
	problems  int            // messages that must be reported as errors
	processed []string
	fatal     bool // the stream stopped being a sequence of runtime messages
	truncated bool // ... because it ends inside an item (more input could complete it)
	done      bool // client-done seen
}

type refEnvelope struct {
	ID    uint32          `cbor:"id"`
	RunID string          `cbor:"run_id"`
	Data  cbor.RawMessage `cbor:"data"`
}

type refWorkStart struct {
	StepID string `cbor:"id"`
	Config any    `cbor:"config"`
}

type refSignal struct {
	SignalID string `cbor:"signal_id"`
	Data     any    `cbor:"data"`
}

// modelClientStream is the executable statement of which work-starts a server
// has accepted after reading the given bytes: a well-formed envelope of message
// type 1 with non-empty run and step IDs and a decodable body, delivered
// completely, before client-done or the first undecodable item.
func modelClientStream(b []byte) *clientModel {
	m := &clientModel{accepted: map[string]int{}, malformed: map[string]int{}}
	dec := cbor.NewDecoder(bytes.NewReader(b))
	var start any
	if err := dec.Decode(&start); err != nil {
		return m
	}
	m.startSeen = true
	for {
		var env refEnvelope
		if err := dec.Decode(&env); err != nil {
			if err != io.EOF {
				m.fatal = true
				m.truncated = err == io.ErrUnexpectedEOF
				m.problems++
				m.processed = append(m.processed, "undecodable")
			}
			return m
		}
		switch env.ID {
		case atp.MessageTypeWorkStart:
			var ws refWorkStart
			if err := cbor.Unmarshal(env.Data, &ws); err != nil {
				m.malformed[env.RunID]++
				m.problems++
				m.processed = append(m.processed, "ws-malformed")
			} else if env.RunID == "" || ws.StepID == "" {
				m.problems++
				m.processed = append(m.processed, "ws-missing-id")
			} else {
				m.accepted[env.RunID]++
				m.processed = append(m.processed, "ws:"+env.RunID)
			}
		case atp.MessageTypeSignal:
			var sg refSignal
			if err := cbor.Unmarshal(env.Data, &sg); err != nil {
				m.problems++
				m.processed = append(m.processed, "signal-malformed")
			} else {
				m.processed = append(m.processed, "signal:"+env.RunID)
			}
		case atp.MessageTypeClientDone:
			m.done = true
			m.processed = append(m.processed, "done")
			return m
		default:
			m.problems++
			m.processed = append(m.processed, fmt.Sprintf("unknown-id-%d", env.ID))
		}
	}
}

func errList(errs []*atp.ServerError) []string {
	var out []string
	for _, e := range errs {
		out = append(out, trunc(e.String(), 160))
	}
	return out
}

func trunc(s string, n int) string {
	if len(s) > n {
		return s[:n]
	}
	return s
}

// ---------------------------------------------------------------- engine

type serverEngine struct{}

func init() { engines["C07"] = serverEngine{} }

// ServerExtra is the batch-level parameter of crash-point batches.
type ServerExtra struct {
	EveryByte bool `json:"every_byte"`
	Stride    int  `json:"stride"`
}

func serverBasePlan(batch string, base uint64) *ServerPlan {
	wl := rt.NewTape(0xC07+uint64(len(batch)), base)
	return PlanServer(wl, serverOptsFor(batch))
}

// SubRuns enumerates the crash points of one base execution.
func (serverEngine) SubRuns(t *testing.T, batch string, baseTape func() *rt.Tape, runIdx uint64, extra json.RawMessage) []json.RawMessage {
	if batch != "c07.crash" {
		return nil
	}
	var ex ServerExtra
	_ = json.Unmarshal(extra, &ex)
	plan := serverBasePlan(batch, runIdx)
	stream := plan.stream()
	L := int64(len(stream))
	offs := map[int64]bool{}
	if ex.EveryByte {
		for k := int64(0); k <= L; k++ {
			offs[k] = true
		}
	} else {
		off := int64(0)
		for _, e := range plan.Elems {
			for _, d := range []int64{-1, 0, 1} {
				if k := off + d; k >= 0 && k <= L {
					offs[k] = true
				}
			}
			off += int64(len(e.Bytes))
		}
		offs[L] = true
		if L > 0 {
			offs[L-1] = true
		}
		st := int64(ex.Stride)
		if st <= 0 {
			st = 8
		}
		for k := int64(runIdx) % st; k <= L; k += st {
			offs[k] = true
		}
	}
	var ks []int64
	for k := range offs {
		ks = append(ks, k)
	}
	sort.Slice(ks, func(i, j int) bool { return ks[i] < ks[j] })
	var out []json.RawMessage
	b, _ := json.Marshal(ServerFault{Base: runIdx})
	out = append(out, b)
	for _, k := range ks {
		for _, kind := range []string{"eof", "ioerr", "garbage"} {
			b, _ := json.Marshal(ServerFault{Base: runIdx, Kind: kind, At: k, JunkSeed: int(k) + int(runIdx)})
			out = append(out, b)
		}
	}
	// output-side faults at a few offsets
	for _, kind := range []string{"reader-close", "reader-stall"} {
		for _, at := range []int64{0, 1, 600, 7000, 20000} {
			b, _ := json.Marshal(ServerFault{Base: runIdx, Kind: kind, At: at})
			out = append(out, b)
		}
	}
	return out
}

func (e serverEngine) Run(t *testing.T, batch string, tape *rt.Tape, runIdx uint64, extra json.RawMessage, trace func(string)) RunRecord {
	if batch == "c07.race" {
		// the same simulation in a -race build: unsynchronised map access in the server is process death
		return watchRaces("C07", func() RunRecord { return e.run(t, batch, tape, runIdx, extra, trace) })
	}
	return e.run(t, batch, tape, runIdx, extra, trace)
}

func (serverEngine) run(t *testing.T, batch string, tape *rt.Tape, runIdx uint64, extra json.RawMessage, trace func(string)) RunRecord {
	rec := RunRecord{Faults: map[string]int{}}
	var plan *ServerPlan
	var fault ServerFault
	if batch == "c07.crash" {
		if err := json.Unmarshal(extra, &fault); err != nil {
			return RunRecord{Outcome: "infra", Reason: "bad fault extra: " + err.Error()}
		}
		plan = serverBasePlan(batch, fault.Base)
	} else {
		plan = PlanServer(tape, serverOptsFor(batch))
		// random fault on top, sometimes
		stream := plan.stream()
		switch tape.Choose("sv.fault", 8) {
		case 1:
			fault = ServerFault{Kind: "eof", At: int64(tape.Choose("sv.faultat", len(stream)+1))}
		case 2:
			fault = ServerFault{Kind: "ioerr", At: int64(tape.Choose("sv.faultat", len(stream)+1))}
		case 3:
			fault = ServerFault{Kind: "garbage", At: int64(tape.Choose("sv.faultat", len(stream)+1)), JunkSeed: tape.Choose("sv.junkseed", 1000)}
		}
	}
	if why := describable(plan.Plugin); why != "" {
		rec.Outcome = "excluded"
		rec.Reason = "recipe not self-describable: " + why
		return rec
	}
	strat, stratName := drawStrategy(tape)
	out, obs, simRef := runServerPlan(t, plan, fault, tape, strat, trace)
	rec.Steps, rec.Switches, rec.Preempt = out.Steps, out.Switches, out.Preemptions
	rec.FakeMs = out.FakeElapsed.Milliseconds()
	rec.SchedSig = fmt.Sprintf("%016x", out.SchedSig)
	rec.LogHash = fmt.Sprintf("%016x", out.LogHash)
	rec.Strategy = stratName
	rec.Features = sortedFeatureList(plan.Features)
	rec.Nontrivial = out.Preemptions > 0 || fault.Kind != ""
	if fault.Kind != "" {
		rec.Features = append(rec.Features, "fault:"+fault.Kind)
		fired := false
		switch fault.Kind {
		case "eof", "ioerr", "garbage":
			fired = obs.C2S != nil && obs.C2S.FaultFired()
		default:
			fired = obs.ReaderClosedAt >= 0
		}
		if fired {
			rec.Faults[fault.Kind]++
		}
		// the schedule signature alone does not distinguish crash points
		rec.SchedSig += fmt.Sprintf("/%s@%d", fault.Kind, fault.At)
	}
	if simRef != nil {
		rec.Probes = simRef.Probes
		for s := range simRef.SitesSeen {
			if s >= 0 && s < len(rt.SiteYield) {
				rec.Sites = append(rec.Sites, s)
			}
		}
		sort.Ints(rec.Sites)
		for h := range simRef.PairsSeen {
			rec.PairHashes = append(rec.PairHashes, h)
		}
		sort.Slice(rec.PairHashes, func(i, j int) bool { return rec.PairHashes[i] < rec.PairHashes[j] })
	}
	if obs.C2S != nil {
		if n := obs.C2S.FragmentReads + obs.S2C.FragmentReads; n > 0 {
			rec.Faults["frag"] = n
		}
		if n := obs.C2S.Coalesced + obs.S2C.Coalesced; n > 0 {
			rec.Faults["coalesce"] = n
		}
		if n := obs.C2S.EOFsWithData + obs.S2C.EOFsWithData; n > 0 {
			rec.Faults["eof-with-data"] = n
		}
	}
	for _, b := range plan.Behs {
		if b.SleepMs > 0 {
			rec.Faults["slow-step"]++
		}
		switch b.Kind {
		case "panic":
			rec.Faults["step-panic"]++
		case "undeclared":
			rec.Faults["step-undeclared-output"]++
		case "baddata":
			rec.Faults["step-bad-data"]++
		case "error":
			rec.Faults["step-error-output"]++
		}
	}
	var script []string
	for _, e := range plan.Elems {
		s := fmt.Sprintf("%s(%dB)", e.Kind, len(e.Bytes))
		if e.RunID != "" {
			s += " run=" + e.RunID
		}
		if e.Beh != "" {
			s += " beh=" + e.Beh
		}
		script = append(script, s)
	}
	rec.Sample = map[string]any{"script": script, "fault": fault, "stream_len": len(plan.stream()), "strategy": stratName, "steps": out.Steps,
		"c2s": fmt.Sprintf("cap=%d readmax=%v", plan.C2S.Cap, plan.C2S.ReadMax), "close_at_end": plan.CloseAtEnd}
	if out.Budget {
		rec.Outcome = "infra"
		rec.Reason = fmt.Sprintf("step budget exceeded (%d steps)", out.Steps)
		return rec
	}
	if out.BubblePanic != "" && !out.Deadlock {
		rec.Outcome = "infra"
		rec.Reason = "bubble panic: " + trunc(out.BubblePanic, 3000)
		return rec
	}
	rec.Violations = JudgeServer(plan, fault, obs, out)
	if len(rec.Violations) > 0 {
		rec.Outcome = "violation"
	} else {
		rec.Outcome = "ok"
	}
	return rec
}
