package harness

import (
	"bufio"
	"encoding/json"
	"fmt"
	"os"
	"syscall"
	"testing"

	rt "go.flow.arcalot.io/pluginsdk/zzsimrt"
)

var realStderr *os.File

func quietStderr() {
	// the SDK prints to os.Stderr directly; keep our own channel and silence the rest
	fd, err := syscall.Dup(2)
	if err != nil {
		return
	}
	realStderr = os.NewFile(uintptr(fd), "stderr")
	if null, err := os.OpenFile("/dev/null", os.O_WRONLY, 0); err == nil {
		os.Stderr = null
	}
}

func logf(format string, a ...any) {
	if realStderr != nil {
		fmt.Fprintf(realStderr, format+"\n", a...)
	}
}

// TestWorker is the entry point the driver uses: VERIF_JOB holds a JSON job.
func TestWorker(t *testing.T) {
	raw := os.Getenv("VERIF_JOB")
	if raw == "" {
		t.Skip("no VERIF_JOB")
	}
	quietStderr()
	var job Job
	if err := json.Unmarshal([]byte(raw), &job); err != nil {
		t.Fatalf("bad job: %v", err)
	}
	e := engineFor(job.Property)
	outF, err := os.Create(job.Out)
	if err != nil {
		t.Fatalf("cannot create output: %v", err)
	}
	defer outF.Close()
	w := bufio.NewWriter(outF)
	defer w.Flush()
	enc := json.NewEncoder(w)

	var traceF *bufio.Writer
	if job.Trace != "" {
		f, err := os.Create(job.Trace)
		if err != nil {
			t.Fatalf("cannot create trace: %v", err)
		}
		defer f.Close()
		traceF = bufio.NewWriter(f)
		defer traceF.Flush()
	}

	switch job.Mode {
	case "replay":
		b, err := os.ReadFile(job.Replay)
		if err != nil {
			t.Fatalf("read replay: %v", err)
		}
		var rf ReplayFile
		if err := json.Unmarshal(b, &rf); err != nil {
			t.Fatalf("parse replay: %v", err)
		}
		var trace func(string)
		if traceF != nil {
			trace = func(l string) { traceF.WriteString(l); traceF.WriteByte('\n') }
		}
		rec := engineFor(rf.Property).Run(t, rf.Batch, rt.NewReplayTape(rf.Tape), rf.RunIndex, rf.Extra, trace)
		rec.Run = rf.RunIndex
		rec.Batch = rf.Batch
		if matchViolation(rec, rf.Violation) {
			rec.Reason = "reproduced"
		} else {
			rec.Reason = "not-reproduced"
		}
		if rec.LogHash != rf.LogHash {
			rec.Reason += " log-hash-differs"
		}
		_ = enc.Encode(rec)
		return
	}

	maxViol := job.MaxViol
	if maxViol == 0 {
		maxViol = 2
	}
	nviol := 0
	for idx := job.From; idx < job.To; idx++ {
		logf("BEGIN %d", idx)
		tape := rt.NewTape(job.Seed, idx)
		var trace func(string)
		if traceF != nil {
			fmt.Fprintf(traceF, "RUN %d\n", idx)
			trace = func(l string) { traceF.WriteString(l); traceF.WriteByte('\n') }
		}
		rec := e.Run(t, job.Batch, tape, idx, job.Extra, trace)
		rec.Run = idx
		rec.Batch = job.Batch
		rec.TapeLen = len(tape.Rec)
		if traceF != nil {
			fmt.Fprintf(traceF, "END %d hash=%s outcome=%s\n", idx, rec.LogHash, rec.Outcome)
		}
		for _, v := range rec.Violations {
			if v.Property == "HARNESS" {
				rec.Outcome = "infra"
				rec.Reason = "harness-only deadlock: " + v.Signature + " :: " + v.Detail
			}
		}
		own := -1
		for i, v := range rec.Violations {
			if v.Property == job.Property {
				own = i
				break
			}
		}
		if rec.Outcome == "violation" && own < 0 {
			rec.Outcome = "excluded"
			rec.Reason = "violates " + rec.Violations[0].Property + " only: " + rec.Violations[0].Class + " " + rec.Violations[0].Signature
		}
		if rec.Outcome == "violation" && own >= 0 {
			nviol++
			v := rec.Violations[own]
			rf := &ReplayFile{Property: v.Property, Engine: job.Property, Batch: job.Batch, Seed: job.Seed, RunIndex: idx, Extra: job.Extra,
				Violation: v, AllViolations: rec.Violations, LogHash: rec.LogHash, Sample: rec.Sample, Tape: tape.Rec}
			// the engine that reproduces it is the job's engine
			rf.Property = job.Property
			rf.Violation = v
			isKnown := false
			for _, k := range job.Known {
				if k.Property == v.Property && k.Class == v.Class && k.Signature == v.Signature {
					isKnown = true
				}
			}
			if isKnown {
				nviol--
			}
			if !job.NoMinimise && !isKnown {
				min, attempts := minimise(t, e, job.Batch, idx, job.Extra, tape.Rec, v, 400)
				// final run of the minimised tape to get its hash and sample
				mrec := e.Run(t, job.Batch, rt.NewReplayTape(min), idx, job.Extra, nil)
				if matchViolation(mrec, v) {
					rf.MinimisedFrom = map[string]int{"tape": len(tape.Rec), "attempts": attempts}
					rf.Tape = min
					rf.Minimised = true
					rf.LogHash = mrec.LogHash
					rf.Sample = mrec.Sample
					rf.AllViolations = mrec.Violations
				}
			}
			if job.ReplayDir != "" && !isKnown {
				if name, err := writeReplay(job.ReplayDir, rf); err == nil {
					rec.ReplayFile = name
				} else {
					logf("cannot write replay: %v", err)
				}
			}
		}
		if err := enc.Encode(rec); err != nil {
			t.Fatalf("write: %v", err)
		}
		logf("END %d", idx)
		if nviol >= maxViol {
			break
		}
	}
}
