package harness

import (
	"bufio"
	"encoding/json"
	"fmt"
	"os"
	"syscall"
	"testing"

	rt "go.flow.arcalot.io/pluginsdk/zzsimrt"
)

var realStderr *os.File

func quietStderr() {
	// the SDK prints to os.Stderr directly; keep our own channel and silence the rest
	fd, err := syscall.Dup(2)
	if err != nil {
		return
	}
	realStderr = os.NewFile(uintptr(fd), "stderr")
	if null, err := os.OpenFile("/dev/null", os.O_WRONLY, 0); err == nil {
		os.Stderr = null
	}
}

func logf(format string, a ...any) {
	if realStderr != nil {
		fmt.Fprintf(realStderr, format+"\n", a...)
	}
}

// TestWorker is the entry point the driver uses: VERIF_JOB holds a JSON job.
func TestWorker(t *testing.T) {
	raw := os.Getenv("VERIF_JOB")
	if raw == "" {
		t.Skip("no VERIF_JOB")
	}
	quietStderr()
	var job Job
	if err := json.Unmarshal([]byte(raw), &job); err != nil {
		t.Fatalf("bad job: %v", err)
	}
	e := engineFor(job.Property)
	outF, err := os.Create(job.Out)
	if err != nil {
		t.Fatalf("cannot create output: %v", err)
	}
	defer outF.Close()
	w := bufio.NewWriter(outF)
	defer w.Flush()
	enc := json.NewEncoder(w)

	var traceF *bufio.Writer
	if job.Trace != "" {
		f, err := os.Create(job.Trace)
		if err != nil {
			t.Fatalf("cannot create trace: %v", err)
		}
		defer f.Close()
		traceF = bufio.NewWriter(f)
		defer traceF.Flush()
	}

	switch job.Mode {
	case "replay":
		b, err := os.ReadFile(job.Replay)
		if err != nil {
			t.Fatalf("read replay: %v", err)
		}
		var rf ReplayFile
		if err := json.Unmarshal(b, &rf); err != nil {
			t.Fatalf("parse replay: %v", err)
		}
		var trace func(string)
		if traceF != nil {
			trace = func(l string) { traceF.WriteString(l); traceF.WriteByte('\n') }
		}
		rec := engineFor(rf.Property).Run(t, rf.Batch, rt.NewReplayTape(rf.Tape), rf.RunIndex, rf.Extra, trace)
		rec.Run = rf.RunIndex
		rec.Batch = rf.Batch
		if matchViolation(rec, rf.Violation) {
			rec.Reason = "reproduced"
		} else {
			rec.Reason = "not-reproduced"
		}
		if rec.LogHash != rf.LogHash {
			rec.Reason += " log-hash-differs"
		}
		_ = enc.Encode(rec)
		return
	}

	maxViol := job.MaxViol
	if maxViol == 0 {
		maxViol = 2
	}
	nviol := 0
	runOne := func(idx uint64, sub int, extra json.RawMessage) bool {
		tapeIdx := idx
		if sub >= 0 {
			// all crash points of one base execution share the tape: same prefix until the fault manifests
			tapeIdx = idx + 1<<40
		}
		tape := rt.NewTape(job.Seed, tapeIdx)
		var trace func(string)
		if traceF != nil {
			fmt.Fprintf(traceF, "RUN %d.%d\n", idx, sub)
			trace = func(l string) { traceF.WriteString(l); traceF.WriteByte('\n') }
		}
		rec := e.Run(t, job.Batch, tape, idx, extra, trace)
		rec.Run = idx
		rec.Sub = sub
		rec.Batch = job.Batch
		rec.TapeLen = len(tape.Rec)
		if traceF != nil {
			fmt.Fprintf(traceF, "END %d.%d hash=%s outcome=%s\n", idx, sub, rec.LogHash, rec.Outcome)
		}
		for _, v := range rec.Violations {
			if v.Property == "HARNESS" {
				if rec.Outcome != "infra" {
					rec.Reason = ""
				}
				rec.Outcome = "infra"
				rec.Reason += "harness-only " + v.Class + ": " + v.Signature + " :: " + v.Detail + " || "
			}
		}
		own := -1
		for i, v := range rec.Violations {
			if v.Property == job.Property {
				own = i
				break
			}
		}
		if rec.Outcome == "violation" && own < 0 {
			rec.Outcome = "excluded"
			rec.Reason = "violates " + rec.Violations[0].Property + " only: " + rec.Violations[0].Class + " " + rec.Violations[0].Signature
		}
		if rec.Outcome == "violation" && own >= 0 {
			nviol++
			v := rec.Violations[own]
			rf := &ReplayFile{Property: job.Property, Engine: job.Property, Batch: job.Batch, Seed: job.Seed, RunIndex: idx, Sub: sub, Extra: extra,
				Violation: v, AllViolations: rec.Violations, LogHash: rec.LogHash, Sample: rec.Sample, Tape: tape.Rec}
			isKnown := false
			for _, k := range job.Known {
				if k.Property == v.Property && k.Class == v.Class && k.Signature == v.Signature {
					isKnown = true
				}
			}
			if isKnown {
				nviol--
			}
			// a data race is reported once per pair of stacks and process: it cannot be re-observed in this
			// process, so its tape is kept as recorded
			if !job.NoMinimise && !isKnown && v.Class != "race" {
				min, attempts := minimise(t, e, job.Batch, idx, extra, tape.Rec, v, 400)
				// final run of the minimised tape to get its hash and sample
				mrec := e.Run(t, job.Batch, rt.NewReplayTape(min), idx, extra, nil)
				if matchViolation(mrec, v) {
					rf.MinimisedFrom = map[string]int{"tape": len(tape.Rec), "attempts": attempts}
					rf.Tape = min
					rf.Minimised = true
					rf.LogHash = mrec.LogHash
					rf.Sample = mrec.Sample
					rf.AllViolations = mrec.Violations
				}
			}
			if job.ReplayDir != "" && !isKnown {
				if name, err := writeReplay(job.ReplayDir, rf); err == nil {
					rec.ReplayFile = name
				} else {
					logf("cannot write replay: %v", err)
				}
			}
		}
		if err := enc.Encode(rec); err != nil {
			t.Fatalf("write: %v", err)
		}
		return nviol < maxViol
	}
	for idx := job.From; idx < job.To; idx++ {
		logf("BEGIN %d", idx)
		goOn := true
		if sr, ok := e.(SubRunner); ok {
			if subs := sr.SubRuns(t, job.Batch, func() *rt.Tape { return rt.NewTape(job.Seed, idx+1<<40) }, idx, job.Extra); subs != nil {
				for si, sub := range subs {
					if job.SubMod > 1 && si%job.SubMod != job.SubRem {
						continue
					}
					if goOn = runOne(idx, si, sub); !goOn {
						break
					}
				}
				logf("END %d", idx)
				if !goOn {
					break
				}
				continue
			}
		}
		goOn = runOne(idx, -1, job.Extra)
		logf("END %d", idx)
		if !goOn {
			break
		}
	}
}
