package harness

import (
	"bytes"
	"encoding/json"
	"fmt"
	"go/ast"
	"go/parser"
	"go/token"
	"os"
	"os/exec"
	"path/filepath"
	"sort"
	"strings"
	"testing"
	"time"
	"unicode"

	rt "go.flow.arcalot.io/pluginsdk/zzsimrt"
)

// CGProp / CGObject describe a generated schema document for the code generator.
type CGProp struct {
	Name   string `json:"name"`
	TypeID string `json:"type_id"`
	Ref    string `json:"ref,omitempty"`
	// ExtraID: an id carried by a type that is not a reference
	ExtraID string `json:"extra_id,omitempty"`
}

type CGObject struct {
	ID    string   `json:"id"`
	Props []CGProp `json:"props"`
}

var cgTypeIDs = []string{"string", "integer", "float", "bool", "list", "map", "ref", "enum_string", "enum_integer", "pattern", "any", "object", "scope", "one_of_string", "one_of_int"}

func genCGDoc(s Src, withMap bool) ([]CGObject, string) {
	no := s.Choose("cg.nobj", 7)
	var objs []CGObject
	// Names are valid identifiers drawn from pools that contain capitalisation variants of the same word and
	// names that are prefixes of each other: orderings that only agree on "easy" names must not pass. Two names
	// of one map never produce the same Go identifier (the generator upper-cases the first letter).
	objPool := []string{"Obj", "pod", "Pod", "POD", "podSpec", "podspec", "volume_spec", "Volume_Spec", "X", "x1", "metaData", "metadata", "MetaData", "a", "B",
		// valid identifiers that happen to be type IDs: a reference to such an object must still be typed with
		// the object's name
		"integer", "float", "string", "Integer"}
	propPool := []string{"name", "Name", "size", "apiVersion", "apiversion", "ApiVersion", "APIVERSION", "host_path", "hostPath", "hostpath", "z", "Z", "userID", "userId", "userid", "USERID", "n", "N1", "burst", "Burst"}
	// Names of one map are distinct strings; two of them may well map to the same Go identifier (the
	// generator upper-cases the first letter): "burst" and "Burst" are two properties and need two fields.
	pick := func(kind string, pool []string, used map[string]bool) string {
		for try := 0; try < 8; try++ {
			n := pool[s.Choose(kind, len(pool))]
			if s.Choose(kind+".suffix", 3) == 2 {
				n += fmt.Sprint(s.Choose(kind+".n", 3))
			}
			if !used[n] {
				used[n] = true
				return n
			}
		}
		n := fmt.Sprintf("%s_%d", pool[0], len(used))
		used[n] = true
		return n
	}
	usedObj := map[string]bool{}
	usedTitle := map[string]bool{}
	for i := 0; i < no; i++ {
		o := CGObject{ID: pick("cg.oname", objPool, usedObj)}
		for usedTitle[titleFirst(o.ID)] {
			o.ID += "x"
		}
		usedTitle[titleFirst(o.ID)] = true
		np := s.Choose("cg.nprop", 7)
		usedProp := map[string]bool{}
		for j := 0; j < np; j++ {
			p := CGProp{Name: pick("cg.pname", propPool, usedProp), TypeID: cgTypeIDs[s.Choose("cg.type", len(cgTypeIDs))]}
			if p.TypeID == "map" && !withMap {
				p.TypeID = "list"
			}
			if p.TypeID != "ref" && s.Choose("cg.extraid", 4) == 3 {
				p.ExtraID = []string{"Inner", "Counter", "meta", "X9"}[s.Choose("cg.extraidname", 4)]
			}
			if p.TypeID == "ref" {
				p.Ref = fmt.Sprintf("Ref%d", s.Choose("cg.ref", 5))
				if no > 0 && s.Choose("cg.refobj", 2) == 1 {
					p.Ref = "" // filled below with an existing object id
				}
			}
			o.Props = append(o.Props, p)
		}
		objs = append(objs, o)
	}
	for i := range objs {
		for j := range objs[i].Props {
			if objs[i].Props[j].TypeID == "ref" && objs[i].Props[j].Ref == "" {
				objs[i].Props[j].Ref = objs[(i+j+1)%len(objs)].ID
			}
		}
	}
	// YAML document in the shape the generator reads
	var b strings.Builder
	b.WriteString("steps:\n  create:\n    id: create\n    input:\n      root: " + func() string {
		if len(objs) > 0 {
			return objs[0].ID
		}
		return "none"
	}() + "\n      objects:")
	if len(objs) == 0 {
		b.WriteString(" {}\n")
	} else {
		b.WriteString("\n")
	}
	for _, o := range objs {
		fmt.Fprintf(&b, "        %s:\n          id: %s\n          properties:", o.ID, o.ID)
		if len(o.Props) == 0 {
			b.WriteString(" {}\n")
			continue
		}
		b.WriteString("\n")
		for _, p := range o.Props {
			fmt.Fprintf(&b, "            %s:\n              required: true\n              display:\n                name: %s\n              type:\n                type_id: %s\n", p.Name, p.Name, p.TypeID)
			if p.TypeID == "ref" {
				fmt.Fprintf(&b, "                id: %s\n", p.Ref)
			} else if p.ExtraID != "" {
				// an id on a type that is not a reference (inline objects have one): it does not name the Go type
				fmt.Fprintf(&b, "                id: %s\n", p.ExtraID)
			}
		}
	}
	return objs, b.String()
}

func titleFirst(s string) string {
	r := []rune(s)
	if len(r) == 0 {
		return s
	}
	r[0] = unicode.ToTitle(r[0])
	return string(r)
}

func cgGoType(p CGProp) string {
	switch p.TypeID {
	case "integer":
		return "int64"
	case "float":
		return "float64"
	case "ref":
		return p.Ref
	}
	return p.TypeID
}

type cgRun struct {
	exit   int
	stderr string
	out    []byte
	hasOut bool
}

func runCodegen(bin, dir, doc string, ignore *string, mode string, keepOld bool) cgRun {
	if !keepOld {
		_ = os.Remove(filepath.Join(dir, "typedef_output.go"))
	}
	if err := os.WriteFile(filepath.Join(dir, "schema_input.yaml"), []byte(doc), 0o644); err != nil {
		return cgRun{exit: -2, stderr: err.Error()}
	}
	args := []string{"schema_input.yaml"}
	if ignore != nil {
		args = append(args, *ignore)
	}
	cmd := exec.Command(bin, args...)
	cmd.Dir = dir
	cmd.Env = append(os.Environ(), "VERIF_MAPMODE="+mode)
	var stderr bytes.Buffer
	cmd.Stderr = &stderr
	done := make(chan error, 1)
	if err := cmd.Start(); err != nil {
		return cgRun{exit: -2, stderr: err.Error()}
	}
	go func() { done <- cmd.Wait() }()
	var err error
	select {
	case err = <-done:
	case <-time.After(30 * time.Second):
		_ = cmd.Process.Kill()
		<-done
		return cgRun{exit: -3, stderr: "timeout"}
	}
	r := cgRun{stderr: stderr.String()}
	if err != nil {
		r.exit = 1
		if ee, ok := err.(*exec.ExitError); ok {
			r.exit = ee.ExitCode()
		}
	}
	if b, err := os.ReadFile(filepath.Join(dir, "typedef_output.go")); err == nil {
		r.out, r.hasOut = b, true
	}
	return r
}

type codegenEngine struct{}

func init() { engines["C19"] = codegenEngine{} }

func (codegenEngine) Run(t *testing.T, batch string, tape *rt.Tape, runIdx uint64, extra json.RawMessage, trace func(string)) RunRecord {
	rec := RunRecord{Faults: map[string]int{}, Probes: map[string]int{}}
	bin := os.Getenv("VERIF_CODEGEN_BIN")
	if bin == "" {
		return RunRecord{Outcome: "infra", Reason: "VERIF_CODEGEN_BIN not set"}
	}
	objs, doc := genCGDoc(tape, batch == "c19.mapkw")
	dir, err := os.MkdirTemp("", "verifsim-cg-")
	if err != nil {
		return RunRecord{Outcome: "infra", Reason: err.Error()}
	}
	defer os.RemoveAll(dir)
	add := func(class, sig, detail string) {
		rec.Violations = append(rec.Violations, Violation{"C19", class, sig, detail})
	}
	var ignoreName *string
	if len(objs) > 0 && tape.Choose("cg.ignoreexisting", 3) != 0 {
		n := objs[tape.Choose("cg.ignore", len(objs))].ID
		ignoreName = &n
	} else {
		n := "ObjectMeta"
		ignoreName = &n
	}
	forms := []struct {
		name   string
		ignore *string
	}{{"with-ignore-argument", ignoreName}, {"without-ignore-argument", nil}}
	if tape.Choose("cg.formorder", 2) == 1 {
		forms[0], forms[1] = forms[1], forms[0]
	}
	// go generate re-runs the generator in a directory that still holds the previous output (possibly a longer
	// one, written for other arguments): in half of the trials the file is left in place between executions
	keepOld := tape.Choose("cg.keepold", 2) == 1
	modes := []string{"natural", fmt.Sprintf("random:%d", 1+tape.Choose("cg.perm", 1<<30)), fmt.Sprintf("random:%d", 1+tape.Choose("cg.perm", 1<<30)), fmt.Sprintf("random:%d", 1+tape.Choose("cg.perm", 1<<30)), "reverse", "runtime"}
	execs := 0
	for _, f := range forms {
		var base cgRun
		for mi, m := range modes {
			r := runCodegen(bin, dir, doc, f.ignore, m, keepOld)
			execs++
			if r.exit < -1 {
				return RunRecord{Outcome: "infra", Reason: "cannot run the generator: " + r.stderr}
			}
			if r.exit != 0 || strings.Contains(r.stderr, "panic:") {
				line := ""
				for _, l := range strings.Split(r.stderr, "\n") {
					if strings.HasPrefix(l, "panic:") {
						line = l
						break
					}
				}
				add("panic", "generator-failed: "+stripVolatile(strings.TrimPrefix(line, "panic: ")), fmt.Sprintf("exit status %d (%s, order %s): %s", r.exit, f.name, m, trunc(r.stderr, 600)))
				break
			}
			if !r.hasOut {
				add("mismatch", "no-output:"+f.name, "the generator exited 0 but wrote no typedef_output.go")
				break
			}
			if mi == 0 {
				base = r
				// ---- the model: one struct per non-ignored object, one tagged field per property
				fset := token.NewFileSet()
				file, perr := parser.ParseFile(fset, "typedef_output.go", r.out, 0)
				if perr != nil {
					add("mismatch", "output-does-not-parse", perr.Error())
					break
				}
				got := map[string][]string{}
				dupStruct := ""
				for _, d := range file.Decls {
					gd, ok := d.(*ast.GenDecl)
					if !ok || gd.Tok != token.TYPE {
						continue
					}
					for _, sp := range gd.Specs {
						ts := sp.(*ast.TypeSpec)
						st, ok := ts.Type.(*ast.StructType)
						if !ok {
							continue
						}
						if _, dup := got[ts.Name.Name]; dup {
							dupStruct = ts.Name.Name
						}
						var fields []string
						for _, fl := range st.Fields.List {
							typ := ""
							if id, ok := fl.Type.(*ast.Ident); ok {
								typ = id.Name
							}
							tag := ""
							if fl.Tag != nil {
								tag = fl.Tag.Value
							}
							for _, n := range fl.Names {
								fields = append(fields, n.Name+" "+typ+" "+tag)
							}
						}
						got[ts.Name.Name] = fields
					}
				}
				if dupStruct != "" {
					add("mismatch", "struct-emitted-twice", dupStruct)
				}
				want := map[string][]string{}
				for _, o := range objs {
					if f.ignore != nil && o.ID == *f.ignore {
						continue
					}
					fields := []string{}
					for _, p := range o.Props {
						fields = append(fields, titleFirst(p.Name)+" "+cgGoType(p)+" `json:\""+p.Name+"\"`")
					}
					want[titleFirst(o.ID)] = fields
				}
				if fmt.Sprint(sortedStructs(got)) != fmt.Sprint(sortedStructs(want)) {
					add("mismatch", "output-differs-from-model:"+f.name, fmt.Sprintf("want %v got %v", sortedStructs(want), sortedStructs(got)))
				}
				continue
			}
			if !bytes.Equal(base.out, r.out) {
				add("mismatch", "output-depends-on-map-order", fmt.Sprintf("%s: the output under iteration order %q differs from the one under %q (%d vs %d bytes)\n--- %s\n%s\n--- %s\n%s", f.name, m, modes[0], len(r.out), len(base.out), modes[0], trunc(string(base.out), 700), m, trunc(string(r.out), 700)))
				break
			}
		}
		if len(rec.Violations) > 0 {
			break
		}
	}
	nprops := 0
	for _, o := range objs {
		nprops += len(o.Props)
	}
	rec.Steps = execs
	rec.Faults["map-order"] = execs
	rec.SchedSig = fmt.Sprintf("%x", fnvString(doc))
	rec.LogHash = rec.SchedSig
	rec.Nontrivial = len(objs) >= 2 || nprops >= 2
	rec.Probes["generator_executions"] = execs
	rec.Sample = map[string]any{"objects": len(objs), "properties": nprops, "ignore": *ignoreName, "orders": modes, "yaml_head": trunc(doc, 400)}
	if len(rec.Violations) > 0 {
		rec.Outcome = "violation"
	} else {
		rec.Outcome = "ok"
	}
	return rec
}

func sortedStructs(m map[string][]string) []string {
	var out []string
	for n, fs := range m {
		fl := append([]string(nil), fs...)
		sort.Strings(fl)
		out = append(out, n+"{"+strings.Join(fl, "; ")+"}")
	}
	sort.Strings(out)
	return out
}
