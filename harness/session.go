package harness

import (
	"context"
	"fmt"
	"reflect"
	"sort"
	"strings"
	"sync"
	"time"

	"github.com/fxamacker/cbor/v2"
	"go.flow.arcalot.io/pluginsdk/atp"
	"go.flow.arcalot.io/pluginsdk/schema"
	rt "go.flow.arcalot.io/pluginsdk/zzsimrt"
)

// Sig is a signal sent to a running step.
type Sig struct {
	ID   string `json:"id"`
	Data any    `json:"data"`
}

// Call is one Execute of the workload.
type Call struct {
	RunID     string    `json:"run_id"`
	Step      string    `json:"step"`
	Nonce     string    `json:"nonce"`
	Input     any       `json:"input"`
	Beh       Behaviour `json:"beh"`
	Signals   []Sig     `json:"signals,omitempty"`
	WithChans bool      `json:"with_chans,omitempty"`
}

// SessionPlan is everything that is decided before the first scheduler step.
type SessionPlan struct {
	Plugin      *PluginRecipe   `json:"plugin"`
	Callers     [][]Call        `json:"callers"`
	C2S         rt.PipeConfig   `json:"c2s"`
	S2C         rt.PipeConfig   `json:"s2c"`
	CloseEarly  bool            `json:"close_early,omitempty"` // Close races with the last calls
	Strategy    string          `json:"strategy"`
	StratParams map[string]int  `json:"strategy_params,omitempty"`
	Features    map[string]bool `json:"features"`
}

// SessionOpts selects which workload features a batch may draw.
type SessionOpts struct {
	MaxCallers  int
	MaxCalls    int // per caller
	Signals     bool
	BadInputs   bool
	UnknownStep bool
	Misbehave   bool // undeclared output, bad data, panics
	SlowSteps   bool
	BigPayloads bool
	CloseEarly  bool
	RichSchemas bool
	FixedPlugin *PluginRecipe
	SerialOnly  bool
	DupRunIDs   bool
	Latency     bool
	// BlankStep: some calls name no step at all; the SDK's server answers those with a step-fatal error that
	// carries no run ID, which the client hands to every call in flight
	BlankStep bool
}

func drawPipe(s Src, name string, latency bool) rt.PipeConfig {
	c := rt.PipeConfig{Name: name}
	switch s.Choose("t.cap", 4) {
	case 0:
		c.Cap = 0
	case 1:
		c.Cap = 1 + s.Choose("t.capsmall", 64)
	case 2:
		c.Cap = 600
	case 3:
		c.Cap = 65536
	}
	switch s.Choose("t.readmax", 5) {
	case 0:
		c.ReadMax = nil
	case 1:
		c.ReadMax = []int{1}
	case 2:
		c.ReadMax = []int{1, 2, 7, 16}
	case 3:
		c.ReadMax = []int{17, 100, 600, 0}
	case 4:
		c.ReadMax = []int{1, 5, 0, 0, 300}
	}
	switch s.Choose("t.writemax", 3) {
	case 1:
		c.WriteMax = []int{1, 3, 50, 0}
	case 2:
		c.WriteMax = []int{20, 0, 0}
	}
	c.EOFWithData = s.Choose("t.eofdata", 3) == 2
	if latency && s.Choose("t.lat", 4) == 3 {
		c.Latency = time.Duration(1+s.Choose("t.latms", 2000)) * time.Millisecond
	}
	return c
}

// PlanSession draws a session plan.
func PlanSession(s Src, o SessionOpts) *SessionPlan {
	p := &SessionPlan{Features: map[string]bool{}}
	if o.FixedPlugin != nil {
		p.Plugin = o.FixedPlugin
	} else {
		p.Plugin = GenPlugin(s, o.RichSchemas)
	}
	p.C2S = drawPipe(s, "c2s", o.Latency)
	p.S2C = drawPipe(s, "s2c", o.Latency)
	ncallers := 1
	if o.MaxCallers > 1 && !o.SerialOnly {
		ncallers = 1 + s.Choose("w.ncallers", o.MaxCallers)
	}
	callNo := 0
	for c := 0; c < ncallers; c++ {
		n := 1 + s.Choose("w.ncalls", o.MaxCalls)
		var calls []Call
		for i := 0; i < n; i++ {
			callNo++
			st := &p.Plugin.Steps[s.Choose("w.step", len(p.Plugin.Steps))]
			call := Call{RunID: fmt.Sprintf("run-%d", callNo), Step: st.ID, Nonce: fmt.Sprintf("nonce-%d", callNo), Beh: Behaviour{Kind: "ok"}}
			vg := &ValGen{S: s, Scope: &st.Input}
			if o.BadInputs && chance(s, "w.bad", 1, 6) {
				vg.Corrupt = true
				p.Features["bad_input"] = true
			}
			extra := map[string]any{"nonce": call.Nonce}
			if o.BigPayloads && chance(s, "w.big", 1, 3) {
				extra["blob"] = strings.Repeat("B", 100+s.Choose("w.biglen", 4000))
				p.Features["big_payload"] = true
			}
			call.Input = vg.Object(st.Input.Root, extra)
			if o.UnknownStep && chance(s, "w.unknown", 1, 12) {
				call.Step = "no-such-step"
				p.Features["unknown_step"] = true
			}
			if o.BlankStep && chance(s, "w.blankstep", 1, 12) {
				call.Step = ""
				p.Features["blank_step"] = true
			}
			switch {
			case chance(s, "w.alt", 1, 5):
				call.Beh.Kind = "alt"
			case chance(s, "w.err", 1, 6):
				call.Beh.Kind = "error"
			case o.Misbehave && chance(s, "w.mis", 1, 6):
				kinds := append([]string{"undeclared", "baddata", "panic"}, emptyBadKinds...)
				call.Beh.Kind = kinds[s.Choose("w.miskind", len(kinds))]
				p.Features["misbehave"] = true
			case chance(s, "w.empty", 1, 8):
				call.Beh.Kind = "empty"
			}
			if o.SlowSteps && chance(s, "w.slow", 1, 4) {
				call.Beh.SleepMs = 1 + s.Choose("w.slowms", 5000)
				p.Features["slow_step"] = true
			}
			if o.Signals && st.HasSignals && chance(s, "w.sig", 1, 2) {
				call.WithChans = true
				ns := s.Choose("w.nsig", 3)
				for k := 0; k < ns; k++ {
					data := map[string]any{"k": int64(s.Choose("w.sigk", 1000))}
					switch s.Choose("w.sigmeta", 4) {
					case 1:
						data["meta"] = map[string]any{"tag": "t"}
					case 2:
						data["meta"] = map[string]any{"wait": "1m5s"}
					case 3:
						data["meta"] = map[string]any{"tag": strings.Repeat("long", 10)} // too long: rejected
					}
					call.Signals = append(call.Signals, Sig{ID: "poke", Data: data})
				}
				p.Features["signals"] = true
			} else if o.Signals && chance(s, "w.chans", 1, 4) {
				call.WithChans = true
			}
			calls = append(calls, call)
		}
		p.Callers = append(p.Callers, calls)
	}
	if o.DupRunIDs && callNo > 1 && chance(s, "w.dup", 1, 8) {
		// reuse the first run ID in the last call (after the first completed or concurrently)
		last := &p.Callers[len(p.Callers)-1]
		(*last)[len(*last)-1].RunID = p.Callers[0][0].RunID
		p.Features["dup_run_id"] = true
	}
	if o.CloseEarly && chance(s, "w.closeearly", 1, 5) {
		p.CloseEarly = true
		p.Features["close_early"] = true
	}
	return p
}

func (p *SessionPlan) behaviours() map[string]Behaviour {
	m := map[string]Behaviour{}
	for _, cs := range p.Callers {
		for _, c := range cs {
			m[c.Nonce] = c.Beh
		}
	}
	return m
}

// CallResult is what one Execute returned.
type CallResult struct {
	Started  bool
	Returned int // number of times Execute returned (must be 1)
	Res      atp.ExecutionResult
	FromStep int // signals received from the step
	At       int // scheduler step at return
	StartAt  int // scheduler step at which Execute was called
}

// SessionObs is everything observed during a session run.
type SessionObs struct {
	Results      [][]CallResult
	SchemaErr    error
	Schema       *schema.SchemaSchema
	CloseErr     error
	CloseDone    bool
	ServerErrs   []*atp.ServerError
	ServerDone   bool
	C2S, S2C     *rt.Pipe
	Rec          *Recorder
	Plugin       *schema.CallableSchema
	CallersDone  bool
	ServerDied   bool
	SendTimeouts int
}

var (
	siteHarness     = rt.H("harness.step")
	siteDrain       = rt.H("harness.sigdrain")
	siteAfterExec   = rt.H("harness.afterExecute")
	siteWaitCallers = rt.H("harness.waitCallers")
	siteWaitServer  = rt.H("harness.waitServer")
	siteSigSelect   = rt.H("harness.sigselect")
)

// RunSession is the body of the simulation's main goroutine.
func RunSession(s *rt.Sim, plan *SessionPlan, obs *SessionObs) {
	obs.Rec = newRecorder(plan.behaviours())
	obs.Plugin = BuildPlugin(plan.Plugin, obs.Rec)
	obs.C2S = rt.NewPipe(plan.C2S)
	obs.S2C = rt.NewPipe(plan.S2C)
	obs.Results = make([][]CallResult, len(plan.Callers))
	ctx, cancel := context.WithCancel(context.Background())
	defer cancel()

	serverDone := make(chan struct{})
	rt.GoNamed("server", func() {
		errs := atp.RunATPServer(ctx, rt.ReadEnd{P: obs.C2S}, rt.WriteEnd{P: obs.S2C}, obs.Plugin)
		obs.ServerErrs = errs
		// the plugin process exits: its descriptors are closed by the OS
		_ = obs.C2S.CloseRead()
		_ = obs.S2C.CloseWrite()
		obs.ServerDone = true
		close(serverDone)
	})

	client := atp.NewClientWithLogger(rt.Duplex{In: obs.S2C, Out: obs.C2S}, nil)
	sch, err := client.ReadSchema()
	obs.Schema, obs.SchemaErr = sch, err
	if err != nil {
		_ = client.Close()
		obs.CloseDone = true
		<-serverDone
		return
	}

	var wg sync.WaitGroup
	for ci := range plan.Callers {
		calls := plan.Callers[ci]
		obs.Results[ci] = make([]CallResult, len(calls))
		results := obs.Results[ci]
		wg.Add(1)
		rt.GoNamed("caller", func() {
			defer wg.Done()
			for i := range calls {
				call := &calls[i]
				var toStep chan schema.Input
				var fromStep chan schema.Input
				var sideWG sync.WaitGroup
				if call.WithChans {
					toStep = make(chan schema.Input)
					fromStep = make(chan schema.Input)
					sideWG.Add(2)
					stop := make(chan struct{})
					rt.GoNamed("sigfeed", func() {
						defer sideWG.Done()
						defer close(toStep)
						for _, sg := range call.Signals {
							rt.Yield(siteHarness)
							// (a scheduler-visible select: with both cases ready the runtime would pick at random)
							if rt.Select(siteSigSelect, rt.NewSend(toStep, schema.Input{RunID: call.RunID, ID: sg.ID, InputData: sg.Data}), rt.NewRecv(stop)) == 1 {
								return
							}
							rt.Yield(siteHarness)
						}
					})
					res := &results[i]
					rt.GoNamed("sigdrain", func() {
						defer sideWG.Done()
						for {
							rt.Yield(siteDrain)
							cFrom := rt.NewRecv(fromStep)
							if rt.Select(siteSigSelect, cFrom, rt.NewRecv(stop)) == 1 || !cFrom.OK {
								// Execute returned (the client closed the channel, or the call was refused and it was never used)
								return
							}
							res.FromStep++
						}
					})
					results[i].StartAt = s.StepCount()
					r := client.Execute(schema.Input{RunID: call.RunID, ID: call.Step, InputData: call.Input}, toStep, fromStep)
					results[i].Returned++
					results[i].Res = r
					results[i].At = s.StepCount()
					rt.Yield(siteAfterExec)
					close(stop)
					sideWG.Wait()
					rt.Yield(siteHarness)
				} else {
					results[i].StartAt = s.StepCount()
					r := client.Execute(schema.Input{RunID: call.RunID, ID: call.Step, InputData: call.Input}, nil, nil)
					results[i].Returned++
					results[i].Res = r
					results[i].At = s.StepCount()
					rt.Yield(siteAfterExec)
				}
			}
		})
	}
	if plan.CloseEarly {
		rt.Yield(siteHarness)
		obs.CloseErr = client.Close()
		obs.CloseDone = true
		rt.Yield(siteWaitCallers)
		wg.Wait()
		rt.Yield(siteHarness)
		obs.CallersDone = true
	} else {
		rt.Yield(siteWaitCallers)
		wg.Wait()
		rt.Yield(siteHarness)
		obs.CallersDone = true
		obs.CloseErr = client.Close()
		obs.CloseDone = true
	}
	rt.Yield(siteWaitServer)
	<-serverDone
	rt.Yield(siteHarness)
}

// ---------------------------------------------------------------- oracle

// Violation is a property violation found in one run.
type Violation struct {
	Property  string `json:"property"`
	Class     string `json:"class"`
	Signature string `json:"signature"`
	Detail    string `json:"detail"`
}

var cborDec = func() cbor.DecMode {
	m, err := cbor.DecOptions{}.DecMode()
	if err != nil {
		panic(err)
	}
	return m
}()

// Norm is the documented identification "up to CBOR type normalisation".
func Norm(x any) (any, error) {
	b, err := cbor.Marshal(x)
	if err != nil {
		return nil, err
	}
	var out any
	if err := cborDec.Unmarshal(b, &out); err != nil {
		return nil, err
	}
	return out, nil
}

func short(x any) string {
	s := fmt.Sprintf("%v", x)
	if len(s) > 300 {
		s = s[:300] + "…"
	}
	return s
}

func siteFunc(label string) string {
	// "atp/client.go:(*client).getResultV2:s8:call:..." -> "atp/client.go:(*client).getResultV2"
	parts := strings.SplitN(label, ":", 3)
	if len(parts) >= 2 {
		return parts[0] + ":" + parts[1]
	}
	return label
}

func kindTail(kind string) string {
	// keep the last two path elements of the hierarchical name
	parts := strings.Split(kind, "/")
	var keep []string
	for _, p := range parts {
		if strings.HasSuffix(p, ".go:") {
			continue
		}
		keep = append(keep, p)
	}
	return strings.Join(keep, "/")
}

// stripOrdinal turns "atp/client.go:(*client).getResultV2:s8:call:x.Wait" into
// "atp/client.go:(*client).getResultV2:call:x.Wait" (statement ordinals are not stable under edits).
func stripOrdinal(label string) string {
	parts := strings.Split(label, ":")
	if len(parts) >= 3 {
		p := parts[2]
		i := 0
		for i < len(p) && (p[i] < '0' || p[i] > '9') {
			i++
		}
		allDigits := i < len(p)
		for j := i; j < len(p); j++ {
			if p[j] < '0' || p[j] > '9' {
				allDigits = false
			}
		}
		if allDigits {
			parts[2] = p[:i]
		}
	}
	return strings.Join(parts, ":")
}

// blockedSignature identifies a deadlock by the positions of the goroutines
// that are stuck inside the code of the given source-file prefixes (the side
// of the connection the property is about); Close waiting for its loops is a
// consequence, not a cause, and is left out.
func blockedSignature(b []rt.BlockedG, prefixes ...string) string {
	set := map[string]bool{}
	for _, g := range b {
		in := false
		for _, p := range prefixes {
			if strings.HasPrefix(g.Func, p) {
				in = true
			}
		}
		if !in {
			continue
		}
		pos := stripOrdinal(g.Func)
		if strings.Contains(pos, ").Close:") {
			continue
		}
		set[shortKind(g.Kind)+"@"+pos] = true
	}
	var ks []string
	for k := range set {
		ks = append(ks, k)
	}
	sort.Strings(ks)
	if len(ks) == 0 {
		return "no goroutine inside " + strings.Join(prefixes, ",")
	}
	return strings.Join(ks, " | ")
}

func shortKind(kind string) string {
	// "main/caller/atp/client.go:(*client).prepareResultChannels:go12:func" -> "caller>prepareResultChannels"
	segs := strings.Split(kind, "/")
	var out []string
	for i := 0; i < len(segs); i++ {
		sg := segs[i]
		if strings.Contains(sg, ".go:") {
			p := strings.Split(sg, ":")
			if len(p) >= 2 {
				out = append(out, p[1])
			}
			continue
		}
		if sg == "atp" || sg == "schema" || sg == "main" {
			continue
		}
		out = append(out, sg)
	}
	if len(out) == 0 {
		return "main"
	}
	return strings.Join(out, ">")
}

func panicSignature(p rt.PanicEvent) string {
	v := p.Value
	if len(v) > 80 {
		v = v[:80]
	}
	// strip run-specific parts
	for _, cut := range []string{"nonce-", "run-"} {
		if i := strings.Index(v, cut); i >= 0 {
			v = v[:i]
		}
	}
	fr := ""
	if len(p.Frames) > 0 {
		fr = p.Frames[0]
	}
	return strings.TrimSpace(v) + " @ " + fr + " in " + shortKind(p.Kind)
}

// JudgeSession evaluates the C05/C06 oracles on a finished run.
func JudgeSession(plan *SessionPlan, obs *SessionObs, out rt.Outcome) []Violation {
	var vs []Violation
	add := func(prop, class, sig, detail string) {
		vs = append(vs, Violation{prop, class, sig, detail})
	}
	// ---- liveness / crashes (C06)
	for _, p := range out.Panics {
		prop := "C06"
		if strings.Contains(p.Kind, "server") {
			prop = "C07"
		}
		add(prop, "panic", panicSignature(p), fmt.Sprintf("goroutine %s panicked: %s frames=%v", p.G, p.Value, p.Frames))
	}
	if out.Deadlock {
		var det []string
		for _, b := range out.Blocked {
			det = append(det, fmt.Sprintf("%s in %s [%s] last-yield=%s", b.Name, b.Func, b.Wait, b.Site))
		}
		se := ""
		for _, e := range obs.ServerErrs {
			se += " | server returned error: " + e.String()
		}
		clientStuck := !obs.CloseDone
		for _, b := range out.Blocked {
			if strings.HasPrefix(b.Func, "atp/client.go") {
				clientStuck = true
			}
		}
		for _, rs := range obs.Results {
			for _, r := range rs {
				if r.Returned == 0 {
					clientStuck = true
				}
			}
		}
		serverStuck := false
		for _, b := range out.Blocked {
			if strings.HasPrefix(b.Func, "atp/server.go") || strings.HasPrefix(b.Func, "schema/") {
				serverStuck = true
			}
		}
		detail := "all goroutines durably blocked: " + strings.Join(det, "; ") + se
		switch {
		case clientStuck:
			add("C06", "deadlock", blockedSignature(out.Blocked, "atp/client.go"), detail)
		case serverStuck:
			add("C07", "deadlock", blockedSignature(out.Blocked, "atp/server.go", "schema/"), detail)
		default:
			add("HARNESS", "deadlock", blockedSignature(out.Blocked, "harness."), detail)
		}
	}
	if !out.Deadlock && !out.Budget && len(out.Panics) == 0 {
		if !obs.CloseDone {
			add("C06", "lost", "close-not-returned", "Close did not return")
		}
	}
	if obs.SchemaErr != nil {
		se := ""
		for _, e := range obs.ServerErrs {
			se += " | server error: " + e.String()
		}
		add("C05", "mismatch", "readschema-failed", "ReadSchema failed on a healthy connection: "+obs.SchemaErr.Error()+se)
		return vs
	}
	// ---- transparency (C05)
	if obs.C2S.MaxInflight > 1 {
		add("C05", "overlap", "client-writes-overlap", fmt.Sprintf("%d Write calls in flight client->server", obs.C2S.MaxInflight))
	}
	if obs.S2C.MaxInflight > 1 {
		add("C05", "overlap", "server-writes-overlap", fmt.Sprintf("%d Write calls in flight server->client", obs.S2C.MaxInflight))
	}
	serverPanicked := false
	for _, p := range out.Panics {
		if strings.Contains(p.Kind, "server") {
			serverPanicked = true
		}
	}
	// reference: independent instance, sequential, in process
	refRec := newRecorder(plan.behaviours())
	refRec.NoSleep = true
	ref := BuildPlugin(plan.Plugin, refRec)
	seenRun := map[string]int{}
	for ci, calls := range plan.Callers {
		for i := range calls {
			call := &calls[i]
			seenRun[call.RunID]++
			if ci >= len(obs.Results) || i >= len(obs.Results[ci]) {
				continue
			}
			got := obs.Results[ci][i]
			if got.Returned == 0 {
				if !out.Deadlock && !out.Budget {
					add("C06", "lost", "execute-not-returned", fmt.Sprintf("call %s never returned", call.RunID))
				} else if out.Deadlock {
					add("C05", "lost", "execute-never-returned", fmt.Sprintf("call %s (%s) got no result on a healthy connection", call.RunID, call.Nonce))
				}
				continue
			}
			if got.Returned > 1 {
				add("C06", "duplicate", "execute-returned-twice", call.RunID)
			}
			if serverPanicked || plan.CloseEarly {
				continue // peer unhealthy or Close raced: results may legitimately be errors
			}
			// a call may be refused as a duplicate only while another call with the same run ID is in flight: their
			// [call, return] intervals on the scheduler's step axis must intersect
			dupRun := false
			for cj, cs := range plan.Callers {
				for j, c2 := range cs {
					if c2.RunID == call.RunID && c2.Nonce != call.Nonce && cj < len(obs.Results) && j < len(obs.Results[cj]) {
						o := obs.Results[cj][j]
						if o.Returned > 0 && o.StartAt <= got.At && o.At >= got.StartAt {
							dupRun = true
						}
					}
				}
			}
			if dupRun && got.Res.Error != nil && strings.Contains(got.Res.Error.Error(), "duplicate run ID") {
				// a call that reuses the run ID of a call still in flight is refused by the client (caller
				// misuse); a refused call must not disturb the other one, and a call that is not refused
				// (the other one had finished) is judged like any other
				continue
			}
			// the transport necessarily normalises value types; the reference sees the same normalised input
			nin, nerr := Norm(call.Input)
			if nerr != nil {
				continue
			}
			want := RefCall(ref, call.RunID, call.Step, nin)
			if want.Err != nil {
				if got.Res.Error == nil {
					add("C05", "mismatch", "error-expected", fmt.Sprintf("call %s: in-process gives error %v, over ATP got output %q %s", call.RunID, want.Err, got.Res.OutputID, short(got.Res.OutputData)))
				}
				continue
			}
			if got.Res.Error != nil {
				add("C05", "mismatch", "unexpected-error", fmt.Sprintf("call %s: in-process gives %q, over ATP got error: %v", call.RunID, want.OutputID, got.Res.Error))
				continue
			}
			if got.Res.OutputID != want.OutputID {
				add("C05", "mismatch", "output-id", fmt.Sprintf("call %s: want %q got %q", call.RunID, want.OutputID, got.Res.OutputID))
				continue
			}
			wn, err1 := Norm(want.Data)
			gn, err2 := Norm(got.Res.OutputData)
			if err1 != nil || err2 != nil {
				add("C05", "mismatch", "norm-failed", fmt.Sprintf("%v %v", err1, err2))
				continue
			}
			if !reflect.DeepEqual(wn, gn) {
				add("C05", "mismatch", "output-data", fmt.Sprintf("call %s: want %s got %s", call.RunID, short(wn), short(gn)))
			}
		}
	}
	return vs
}

// firstDiff returns the path of the first difference between two normalised values.
func firstDiff(a, b any, path string) string {
	switch x := a.(type) {
	case map[any]any:
		y, ok := b.(map[any]any)
		if !ok {
			return fmt.Sprintf("%s: %T vs %T", path, a, b)
		}
		for _, k := range sortedAnyKeys(x) {
			if _, ok := y[k]; !ok {
				return fmt.Sprintf("%s/%v: missing on the right", path, k)
			}
			if d := firstDiff(x[k], y[k], fmt.Sprintf("%s/%v", path, k)); d != "" {
				return d
			}
		}
		for _, k := range sortedAnyKeys(y) {
			if _, ok := x[k]; !ok {
				return fmt.Sprintf("%s/%v: missing on the left", path, k)
			}
		}
		return ""
	case []any:
		y, ok := b.([]any)
		if !ok || len(x) != len(y) {
			return fmt.Sprintf("%s: lists differ", path)
		}
		for i := range x {
			if d := firstDiff(x[i], y[i], fmt.Sprintf("%s[%d]", path, i)); d != "" {
				return d
			}
		}
		return ""
	}
	if !reflect.DeepEqual(a, b) {
		return fmt.Sprintf("%s: %v (%T) vs %v (%T)", path, short(a), a, short(b), b)
	}
	return ""
}

func guardedErr(f func() error) (err error, panicked string) {
	defer func() {
		if r := recover(); r != nil {
			panicked = fmt.Sprint(r)
		}
	}()
	return f(), ""
}

// JudgeHelloFidelity evaluates C09's hello clause on a finished healthy session: the engine's copy of the
// plugin schema (rebuilt from the hello message) and the plugin's own copy must be indistinguishable.
func JudgeHelloFidelity(plan *SessionPlan, obs *SessionObs, out rt.Outcome) []Violation {
	var vs []Violation
	add := func(class, sig, detail string) { vs = append(vs, Violation{"C09", class, sig, detail}) }
	if obs.Schema == nil || obs.SchemaErr != nil || obs.Plugin == nil {
		return nil
	}
	own, err := obs.Plugin.SelfSerialize()
	if err != nil {
		return nil
	}
	d1, _ := Norm(own)
	reb, err := obs.Schema.SelfSerialize()
	if err != nil {
		add("mismatch", "rebuilt-schema-cannot-describe-itself", err.Error())
		return vs
	}
	d2, _ := Norm(reb)
	if d := firstDiff(d1, d2, ""); d != "" {
		add("mismatch", "description-changed-by-hello", "the schema rebuilt from the hello message describes itself differently from the plugin's own copy at "+d)
		return vs
	}
	again, err := schema.UnserializeSchema(d2)
	if err != nil {
		add("mismatch", "redescription-rejected", err.Error())
		return vs
	}
	reb2, err := again.SelfSerialize()
	if err != nil {
		add("mismatch", "redescription-cannot-describe-itself", err.Error())
		return vs
	}
	d3, _ := Norm(reb2)
	if d := firstDiff(d2, d3, ""); d != "" {
		add("mismatch", "not-a-fixed-point", "describe/rebuild/describe changed the description at "+d)
	}
	// behaviour on the traffic of this session
	refRec := newRecorder(plan.behaviours())
	refRec.NoSleep = true
	ref := BuildPlugin(plan.Plugin, refRec)
	steps := obs.Schema.Steps()
	accepts := func(t schema.Type, v any) (bool, string) {
		var un any
		err, pan := guardedErr(func() error {
			var e error
			un, e = t.Unserialize(v)
			return e
		})
		if pan != "" {
			return false, pan
		}
		if err != nil {
			return false, ""
		}
		err, pan = guardedErr(func() error { return t.Validate(un) })
		return err == nil && pan == "", pan
	}
	// boundary probes: for every bounded scalar of every step's root object, inputs just inside and just
	// outside the bound, evaluated on both copies (never sent over the wire)
	for si := range plan.Plugin.Steps {
		sr := &plan.Plugin.Steps[si]
		st, ok := steps[sr.ID]
		pst, pok := ref.StepsValue[sr.ID]
		if !ok || !pok {
			continue
		}
		for _, probe := range boundaryProbes(&sr.Input) {
			n, err := Norm(probe)
			if err != nil {
				continue
			}
			ea, p1 := accepts(st.Input(), n)
			pa, p2 := accepts(pst.Input(), n)
			if p1 == "" && p2 == "" && ea != pa {
				add("mismatch", "input-verdict-differs", fmt.Sprintf("step %s boundary probe %s: engine copy accepts=%v, plugin copy accepts=%v", sr.ID, short(n), ea, pa))
				break
			}
		}
	}
	for ci, calls := range plan.Callers {
		for i := range calls {
			call := &calls[i]
			st, ok := steps[call.Step]
			pst, pok := ref.StepsValue[call.Step]
			if ok != pok {
				add("mismatch", "step-set-differs", call.Step)
				continue
			}
			if !ok {
				continue
			}
			nin, err := Norm(call.Input)
			if err != nil {
				continue
			}
			ea, p1 := accepts(st.Input(), nin)
			pa, p2 := accepts(pst.Input(), nin)
			if p1 != "" || p2 != "" {
				continue // totality is not this property's business
			}
			if ea != pa {
				add("mismatch", "input-verdict-differs", fmt.Sprintf("call %s: engine copy accepts=%v, plugin copy accepts=%v for input %s", call.RunID, ea, pa, short(nin)))
			}
			for _, sg := range call.Signals {
				esig, eok := st.SignalHandlers()[sg.ID]
				psig, pok := pst.SignalHandlers()[sg.ID]
				if eok != pok {
					add("mismatch", "signal-set-differs", sg.ID)
					continue
				}
				if !eok {
					continue
				}
				nd, _ := Norm(sg.Data)
				ea, _ := accepts(esig.DataSchema(), nd)
				pa, _ := accepts(psig.DataSchema(), nd)
				if ea != pa {
					add("mismatch", "signal-verdict-differs", fmt.Sprintf("signal %s of %s: engine copy accepts=%v, plugin copy accepts=%v", sg.ID, call.RunID, ea, pa))
				}
			}
			if plan.CloseEarly || ci >= len(obs.Results) || i >= len(obs.Results[ci]) {
				continue
			}
			got := obs.Results[ci][i]
			if got.Returned == 1 && got.Res.Error == nil {
				o, ok := st.Outputs()[got.Res.OutputID]
				if !ok {
					add("mismatch", "output-id-unknown-to-engine-copy", fmt.Sprintf("call %s returned output %q which the engine's copy of the schema does not declare", call.RunID, got.Res.OutputID))
					continue
				}
				err, pan := guardedErr(func() error { _, e := o.Schema().Unserialize(got.Res.OutputData); return e })
				if pan == "" && err != nil {
					add("mismatch", "output-rejected-by-engine-copy", fmt.Sprintf("call %s: output %q sent by the plugin is rejected by the engine's copy of the output schema: %v", call.RunID, got.Res.OutputID, err))
				}
			}
		}
	}
	return vs
}

// boundaryProbes builds, from a deterministic base value of the scope's root object, one input per bound of
// every bounded int / float / string / list property of the root: the value just outside the bound.
func boundaryProbes(sr *ScopeRecipe) []map[string]any {
	root := sr.object(sr.Root)
	if root == nil {
		return nil
	}
	base := func() map[string]any {
		vg := &ValGen{S: zeroSrc{}, Scope: sr}
		return vg.Object(sr.Root, map[string]any{"nonce": "probe"})
	}
	var out []map[string]any
	for i := range root.Props {
		p := &root.Props[i]
		if p.Disabled {
			continue
		}
		set := func(v any) {
			b := base()
			b[p.Name] = v
			out = append(out, b)
		}
		switch p.T.Kind {
		case "int":
			if p.T.Min != nil {
				set(*p.T.Min - 1)
				set(*p.T.Min)
			}
			if p.T.Max != nil {
				set(*p.T.Max + 1)
				set(*p.T.Max)
			}
			if p.T.Min == nil {
				set(int64(-7))
			}
		case "float":
			if p.T.FMin != nil {
				set(*p.T.FMin - 0.5)
				set(*p.T.FMin)
			}
			if p.T.FMax != nil {
				set(*p.T.FMax + 0.5)
			}
		case "string":
			if p.T.Min != nil && *p.T.Min > 0 {
				set(strings.Repeat("x", int(*p.T.Min)-1))
			}
			if p.T.Max != nil {
				set(strings.Repeat("x", int(*p.T.Max)+1))
			}
			if p.T.Min != nil || p.T.Max != nil {
				set("")
			}
		case "list":
			if p.T.Min != nil && *p.T.Min > 0 {
				set([]any{})
			}
		case "enum_s":
			set("not-in-enum")
		case "enum_i":
			set(int64(-12345))
		}
	}
	return out
}

// zeroSrc always chooses the first alternative (the generators' simplest value).
type zeroSrc struct{}

func (zeroSrc) Choose(string, int) int { return 0 }
