package harness

import (
	"encoding/json"
	"fmt"
	"reflect"
	"runtime/debug"
	"sort"
	"strings"
	"testing"

	"go.flow.arcalot.io/pluginsdk/schema"
	rt "go.flow.arcalot.io/pluginsdk/zzsimrt"
)

// ---------------------------------------------------------------- map-order control

// orderMode of one evaluation.
type orderMode struct {
	Name string
	Seed uint64
}

// withOrder evaluates f with the SDK's map iterations in the given order and
// reports how many iteration sites drew an order.
func withOrder(m orderMode, f func()) (sites int) {
	x := m.Seed*0x9e3779b97f4a7c15 + 1
	next := func() uint64 {
		x ^= x << 13
		x ^= x >> 7
		x ^= x << 17
		return x
	}
	rt.MapHook = func(site, n int) []int {
		sites++
		p := make([]int, n)
		for i := range p {
			p[i] = i
		}
		switch m.Name {
		case "natural":
		case "reverse":
			for i, j := 0, n-1; i < j; i, j = i+1, j-1 {
				p[i], p[j] = p[j], p[i]
			}
		case "rotate":
			k := int(m.Seed % uint64(n))
			q := append(append([]int{}, p[k:]...), p[:k]...)
			p = q
		default:
			for i := n - 1; i > 0; i-- {
				j := int(next() % uint64(i+1))
				p[i], p[j] = p[j], p[i]
			}
		}
		return p
	}
	defer func() { rt.MapHook = nil }()
	f()
	return sites
}

func deepCopyValue(v any) any {
	switch x := v.(type) {
	case map[string]any:
		m := make(map[string]any, len(x))
		for k, e := range x {
			m[k] = deepCopyValue(e)
		}
		return m
	case map[any]any:
		m := make(map[any]any, len(x))
		for k, e := range x {
			m[k] = deepCopyValue(e)
		}
		return m
	case []any:
		l := make([]any, len(x))
		for i, e := range x {
			l[i] = deepCopyValue(e)
		}
		return l
	}
	// typed slices ([]int ...) are arguments a caller may pass too
	if rv := reflect.ValueOf(v); rv.IsValid() && rv.Kind() == reflect.Slice && !rv.IsNil() {
		l := reflect.MakeSlice(rv.Type(), rv.Len(), rv.Len())
		reflect.Copy(l, rv)
		return l.Interface()
	}
	return v
}

func copyRecipe(r *ScopeRecipe) *ScopeRecipe {
	b, _ := json.Marshal(r)
	var out ScopeRecipe
	_ = json.Unmarshal(b, &out)
	return &out
}

// ---------------------------------------------------------------- evaluation of one operation

type pureOp struct {
	Kind  string // unserialize | validate | serialize | compat-data | compat-schema
	Arg   any
	Other *ScopeRecipe
	Desc  string
}

type pureRes struct {
	Err   error
	Val   any
	Panic string
}

func evalOp(s *schema.ScopeSchema, op *pureOp, other *schema.ScopeSchema) (res pureRes) {
	defer func() {
		if r := recover(); r != nil {
			res = pureRes{Panic: fmt.Sprint(r)}
		}
	}()
	switch op.Kind {
	case "unserialize":
		v, err := s.Unserialize(op.Arg)
		return pureRes{Err: err, Val: v}
	case "validate":
		return pureRes{Err: s.Validate(op.Arg)}
	case "serialize":
		v, err := s.Serialize(op.Arg)
		return pureRes{Err: err, Val: v}
	case "compat-data":
		return pureRes{Err: s.ValidateCompatibility(op.Arg)}
	case "compat-schema":
		return pureRes{Err: s.ValidateCompatibility(other)}
	}
	return pureRes{}
}

func sameOutcome(a, b pureRes) bool {
	if (a.Panic != "") != (b.Panic != "") {
		return false
	}
	if (a.Err == nil) != (b.Err == nil) {
		return false
	}
	if a.Err == nil && !reflect.DeepEqual(a.Val, b.Val) {
		return false
	}
	return true
}

func describeRes(r pureRes) string {
	switch {
	case r.Panic != "":
		return "panic(" + trunc(r.Panic, 80) + ")"
	case r.Err != nil:
		return "reject(" + trunc(r.Err.Error(), 120) + ")"
	}
	return "accept(" + short(r.Val) + ")"
}

// ---------------------------------------------------------------- C12 engine

type pureEngine struct{}

func init() {
	engines["C12"] = pureEngine{}
	engines["C15"] = compatEngine{}
}

func selfDesc(s *schema.ScopeSchema) (any, error) {
	d, err := s.SelfSerialize()
	if err != nil {
		return nil, err
	}
	return Norm(d)
}

func (pureEngine) Run(t *testing.T, batch string, tape *rt.Tape, runIdx uint64, extra json.RawMessage, trace func(string)) RunRecord {
	rec := RunRecord{Faults: map[string]int{}, Probes: map[string]int{}}
	if batch == "c12.lib" {
		return pureLibRun(tape)
	}
	recipe := GenScope(tape, GenOpts{MaxObjects: 3, MaxProps: 4, MaxDepth: 2, Prefix: "P"})
	var S *schema.ScopeSchema
	buildErr := ""
	func() {
		defer func() {
			if r := recover(); r != nil {
				buildErr = fmt.Sprint(r)
			}
		}()
		S = BuildScope(recipe)
	}()
	if buildErr != "" {
		return RunRecord{Outcome: "excluded", Reason: "recipe cannot be built: " + trunc(buildErr, 120)}
	}
	desc0, derr := selfDesc(S)
	add := func(class, sig, detail string) {
		rec.Violations = append(rec.Violations, Violation{"C12", class, sig, detail})
	}
	nops := 1 + tape.Choose("pu.nops", 30)
	var pool []any // earlier unserialized results
	var history []string
	sitesDrawn := 0
	for i := 0; i < nops && len(rec.Violations) == 0; i++ {
		op := &pureOp{}
		switch tape.Choose("pu.kind", 6) {
		case 0, 1:
			op.Kind = "unserialize"
			vg := &ValGen{S: tape, Scope: recipe, Corrupt: chance(tape, "pu.bad", 1, 4), InProcess: true}
			op.Arg = vg.Object(recipe.Root, nil)
		case 2:
			op.Kind = "validate"
		case 3:
			op.Kind = "serialize"
		case 4:
			op.Kind = "compat-data"
			vg := &ValGen{S: tape, Scope: recipe, Corrupt: chance(tape, "pu.bad", 1, 4), InProcess: true}
			op.Arg = vg.Object(recipe.Root, nil)
		case 5:
			op.Kind = "compat-schema"
			op.Other, op.Desc = mutateRecipe(tape, recipe)
		}
		if op.Kind == "validate" || op.Kind == "serialize" {
			if len(pool) > 0 && tape.Choose("pu.frompool", 4) != 0 {
				op.Arg = pool[tape.Choose("pu.pool", len(pool))]
			} else {
				vg := &ValGen{S: tape, Scope: recipe, Corrupt: chance(tape, "pu.bad", 1, 4), InProcess: true}
				op.Arg = vg.Object(recipe.Root, nil)
			}
		}
		var other *schema.ScopeSchema
		if op.Other != nil {
			func() {
				defer func() { _ = recover() }()
				other = BuildScope(op.Other)
			}()
			if other == nil {
				continue
			}
		}
		history = append(history, op.Kind+op.Desc)
		snapshot := deepCopyValue(op.Arg)
		// (a) order: natural, two drawn, reverse, rotate
		modes := []orderMode{{"natural", 0}, {"random", uint64(tape.Choose("pu.perm", 1<<30))}, {"random", uint64(tape.Choose("pu.perm", 1<<30))}, {"reverse", 0}, {"rotate", uint64(1 + tape.Choose("pu.rot", 5))}}
		var base pureRes
		for mi, m := range modes {
			var r pureRes
			sitesDrawn += withOrder(m, func() { r = evalOp(S, op, other) })
			if !reflect.DeepEqual(snapshot, op.Arg) {
				add("mismatch", "argument-modified:"+op.Kind, fmt.Sprintf("op %d (%s) changed its argument from %s to %s", i, op.Kind, short(snapshot), short(op.Arg)))
				break
			}
			if mi == 0 {
				base = r
				continue
			}
			if !sameOutcome(base, r) {
				add("mismatch", "order-dependent:"+op.Kind+op.Desc, fmt.Sprintf("op %d %s%s on %s: natural order gives %s, order %s/%d gives %s; history=%v", i, op.Kind, op.Desc, short(op.Arg), describeRes(base), m.Name, m.Seed, describeRes(r), history))
				break
			}
		}
		if len(rec.Violations) > 0 {
			break
		}
		// (c) history-freedom: a fresh instance agrees
		fresh := BuildScope(recipe)
		var otherFresh *schema.ScopeSchema
		if op.Other != nil {
			otherFresh = BuildScope(op.Other)
		}
		var fr pureRes
		withOrder(orderMode{"natural", 0}, func() { fr = evalOp(fresh, op, otherFresh) })
		if !sameOutcome(base, fr) {
			add("mismatch", "history-dependent:"+op.Kind+op.Desc, fmt.Sprintf("op %d %s on %s: the used instance gives %s, a fresh instance %s; history=%v", i, op.Kind, short(op.Arg), describeRes(base), describeRes(fr), history))
			break
		}
		if derr == nil {
			if d, err := selfDesc(S); err != nil || !reflect.DeepEqual(d, desc0) {
				add("mismatch", "schema-changed-by:"+op.Kind, fmt.Sprintf("after op %d (%s) the schema's self-description differs from the one taken at construction: %s; history=%v", i, op.Kind, firstDiff(desc0, d, ""), history))
				break
			}
		}
		if op.Kind == "unserialize" && base.Err == nil && base.Panic == "" {
			pool = append(pool, base.Val)
		}
		if base.Err != nil {
			rec.Probes["ops_rejected"]++
		} else {
			rec.Probes["ops_accepted"]++
		}
	}
	rec.Probes["map_iterations_ordered"] = sitesDrawn
	rj, _ := json.Marshal(recipe)
	rec.SchedSig = fmt.Sprintf("%x", fnvString(fmt.Sprint(history)+string(rj)))
	rec.LogHash = rec.SchedSig
	rec.Nontrivial = sitesDrawn > 0
	rec.Faults["map-order"] = sitesDrawn
	rec.Steps = len(history)
	rec.Sample = map[string]any{"history": history, "objects": len(recipe.Objects), "map_iterations_ordered": sitesDrawn}
	if len(rec.Violations) > 0 {
		rec.Outcome = "violation"
	} else {
		rec.Outcome = "ok"
	}
	return rec
}

func fnvString(s string) uint64 {
	h := uint64(14695981039346656037)
	for i := 0; i < len(s); i++ {
		h ^= uint64(s[i])
		h *= 1099511628211
	}
	return h
}

// ---------------------------------------------------------------- recipe mutations (producer vs consumer)

// mutateRecipe returns a variant of the recipe and a description; descriptions starting with "!" mark
// variants that, used as the producer, can never be consumed by the original.
func mutateRecipe(s Src, r *ScopeRecipe) (*ScopeRecipe, string) {
	out := copyRecipe(r)
	if len(out.Objects) == 0 {
		return out, ":same"
	}
	oi := s.Choose("mu.obj", len(out.Objects))
	// only objects reachable from the root matter; the root always is
	if s.Choose("mu.root", 2) == 0 {
		oi = 0
		for i := range out.Objects {
			if out.Objects[i].ID == out.Root {
				oi = i
			}
		}
	}
	obj := &out.Objects[oi]
	isRoot := obj.ID == out.Root
	// an object the root reaches through references, one-of members, list items or map keys/values of enabled
	// properties takes part in the comparison just like the root: a producer that differs there can never be consumed
	reached := reachableObjects(out)[obj.ID]
	mark := func(m string) string {
		if isRoot {
			return ":!" + m
		}
		if reached {
			return ":!" + m + ":behind-reference"
		}
		return ":" + m // not reachable from the root: no expectation
	}
	if s.Choose("mu.oneof", 5) == 4 {
		// a one-of member of the producer points at another object than the consumer's member for that value
		for i := range obj.Props {
			t := &obj.Props[i].T
			if t.Kind == "oneof_s" && len(t.OneOf) >= 1 && len(out.Objects) >= 2 {
				j := s.Choose("mu.oneofmember", len(t.OneOf))
				cur := t.OneOf[j][1]
				for _, o := range out.Objects {
					if o.ID != cur && o.ID != obj.ID && !o.Unenforced && !out.object(cur).Unenforced {
						t.OneOf[j][1] = o.ID
						return out, mark("oneof-member-differs")
					}
				}
			}
		}
	}
	switch s.Choose("mu.kind", 9) {
	case 0:
		return out, ":same"
	case 1:
		if len(obj.Props) == 0 {
			return out, ":same"
		}
		p := &obj.Props[s.Choose("mu.prop", len(obj.Props))]
		if p.Disabled {
			return out, ":same"
		}
		old := p.T.Kind
		nk := "bool"
		if old == "bool" {
			nk = "list"
		}
		p.T = TypeRecipe{Kind: nk}
		if nk == "list" {
			p.T.Items = &TypeRecipe{Kind: "string"}
		}
		p.Default = nil
		if old == "any" || old == "oneof_s" || old == "oneof_i" || old == "ref" {
			return out, ":kind-change"
		}
		return out, mark("kind-change")
	case 2:
		desc := "undeclared-property"
		if s.Choose("mu.dropopt", 2) == 1 {
			// the producer also lacks optional properties of the consumer: the property counts no longer tell
			for i := 0; i < len(obj.Props); {
				p := &obj.Props[i]
				if !p.Required && len(p.RequiredIf) == 0 && len(p.RequiredIfNot) == 0 && !p.Disabled && !referencedByRules(obj, p.Name) {
					obj.Props = append(obj.Props[:i:i], obj.Props[i+1:]...)
					desc = "undeclared-property-with-optional-ones-absent"
					continue
				}
				i++
			}
		}
		obj.Props = append(obj.Props, PropRecipe{Name: "zz_extra", T: TypeRecipe{Kind: "string"}, Required: true})
		return out, mark(desc)
	case 3:
		for i := range obj.Props {
			if obj.Props[i].Required && !obj.Props[i].Disabled {
				obj.Props = append(obj.Props[:i:i], obj.Props[i+1:]...)
				return out, mark("required-property-missing")
			}
		}
		return out, ":same"
	case 4:
		for i := range obj.Props {
			if obj.Props[i].T.Kind == "enum_s" {
				obj.Props[i].T.EnumS = append(obj.Props[i].T.EnumS, "zz_not_in_consumer")
				return out, mark("enum-value-outside")
			}
		}
		return out, ":same"
	case 5:
		// numeric / size ranges that cannot overlap: any bounded int, float, string or map at any depth
		// below a property (through lists and maps), every nil / non-nil combination on the producer's side
		type cand struct {
			t    *TypeRecipe
			prop int
		}
		var cands []cand
		var walk func(t *TypeRecipe, prop int)
		walk = func(t *TypeRecipe, prop int) {
			if t == nil {
				return
			}
			switch t.Kind {
			case "int", "string", "map":
				if t.Min != nil || t.Max != nil {
					cands = append(cands, cand{t, prop})
				}
			case "float":
				if t.FMin != nil || t.FMax != nil {
					cands = append(cands, cand{t, prop})
				}
			}
			walk(t.Items, prop)
			walk(t.Keys, prop)
			walk(t.Values, prop)
		}
		for i := range obj.Props {
			if !obj.Props[i].Disabled {
				walk(&obj.Props[i].T, i)
			}
		}
		if len(cands) == 0 {
			return out, ":same"
		}
		c := cands[s.Choose("mu.rangecand", len(cands))]
		t := c.t
		both := s.Choose("mu.rangeboth", 2) == 1
		above := s.Choose("mu.rangeside", 2) == 0
		sized := t.Kind != "int" && t.Kind != "float"
		desc := "range-disjoint:" + t.Kind
		if t.Kind == "float" {
			if t.FMax == nil || (!above && t.FMin != nil) {
				// below the consumer's minimum
				hi := *t.FMin - 1.5
				lo := hi - 10
				t.FMin, t.FMax = nil, &hi
				if both {
					t.FMin = &lo
				}
				desc += ":below"
			} else {
				lo := *t.FMax + 1.5
				hi := lo + 10
				t.FMin, t.FMax = &lo, nil
				if both {
					t.FMax = &hi
				}
				desc += ":above"
			}
		} else {
			goBelow := t.Max == nil || (!above && t.Min != nil)
			if goBelow && sized && *t.Min < 1 {
				if t.Max == nil {
					return out, ":same" // no size lies below a minimum of 0
				}
				goBelow = false
			}
			if goBelow {
				hi := *t.Min - 1
				lo := hi - 10
				if sized && lo < 0 {
					lo = 0
				}
				t.Min, t.Max = nil, &hi
				if both {
					t.Min = &lo
				}
				desc += ":below"
			} else {
				lo := *t.Max + 1
				hi := lo + 10
				t.Min, t.Max = &lo, nil
				if both {
					t.Max = &hi
				}
				desc += ":above"
			}
		}
		if both {
			desc += ":both-bounds"
		} else {
			desc += ":one-bound"
		}
		obj.Props[c.prop].Default = nil
		return out, mark(desc)
	case 6:
		for i := range obj.Props {
			t := &obj.Props[i].T
			if t.Kind == "int" && t.Min != nil {
				nm := *t.Min + 1
				t.Min = &nm
				return out, ":bound-tightened"
			}
		}
		return out, ":same"
	case 7:
		for i := range obj.Props {
			if !obj.Props[i].Required {
				obj.Props = append(obj.Props[:i:i], obj.Props[i+1:]...)
				return out, ":optional-removed"
			}
		}
		return out, ":same"
	default:
		if isRoot && !obj.Unenforced {
			// every reference to the object must follow its new ID
			old := obj.ID
			obj.ID = old + "Renamed"
			out.Root = obj.ID
			renameRefs(out, old, obj.ID)
			return out, ":!object-id-differs"
		}
		return out, ":same"
	}
}

// referencedByRules tells whether another property's presence rules name the property.
func referencedByRules(o *ObjectRecipe, name string) bool {
	for i := range o.Props {
		for _, l := range [][]string{o.Props[i].RequiredIf, o.Props[i].RequiredIfNot, o.Props[i].Conflicts} {
			for _, n := range l {
				if n == name {
					return true
				}
			}
		}
	}
	return false
}

// reachableObjects returns the IDs of the objects the root object reaches structurally.
func reachableObjects(r *ScopeRecipe) map[string]bool {
	seen := map[string]bool{}
	var visitObj func(id string)
	var visitType func(t *TypeRecipe)
	visitType = func(t *TypeRecipe) {
		if t == nil {
			return
		}
		if t.Ref != "" {
			visitObj(t.Ref)
		}
		for _, m := range t.OneOf {
			visitObj(m[1])
		}
		for _, m := range t.OneOfI {
			visitObj(m.Obj)
		}
		visitType(t.Items)
		visitType(t.Keys)
		visitType(t.Values)
	}
	visitObj = func(id string) {
		if seen[id] {
			return
		}
		o := r.object(id)
		if o == nil {
			return
		}
		seen[id] = true
		for i := range o.Props {
			if !o.Props[i].Disabled {
				visitType(&o.Props[i].T)
			}
		}
	}
	visitObj(r.Root)
	return seen
}

func renameRefs(r *ScopeRecipe, old, neu string) {
	var walk func(t *TypeRecipe)
	walk = func(t *TypeRecipe) {
		if t == nil {
			return
		}
		if t.Ref == old {
			t.Ref = neu
		}
		for i := range t.OneOf {
			if t.OneOf[i][1] == old {
				t.OneOf[i][1] = neu
			}
		}
		for i := range t.OneOfI {
			if t.OneOfI[i].Obj == old {
				t.OneOfI[i].Obj = neu
			}
		}
		walk(t.Items)
		walk(t.Keys)
		walk(t.Values)
	}
	for i := range r.Objects {
		for j := range r.Objects[i].Props {
			walk(&r.Objects[i].Props[j].T)
		}
	}
}

// ---------------------------------------------------------------- C15 engine

type compatEngine struct{}

func (compatEngine) Run(t *testing.T, batch string, tape *rt.Tape, runIdx uint64, extra json.RawMessage, trace func(string)) RunRecord {
	rec := RunRecord{Faults: map[string]int{}, Probes: map[string]int{}}
	recipe := GenScope(tape, GenOpts{MaxObjects: 3, MaxProps: 4, MaxDepth: 2, Prefix: "K", NegativeBounds: true})
	var A *schema.ScopeSchema
	func() {
		defer func() { _ = recover() }()
		A = BuildScope(recipe)
	}()
	if A == nil {
		return RunRecord{Outcome: "excluded", Reason: "recipe cannot be built"}
	}
	add := func(class, sig, detail string) {
		rec.Violations = append(rec.Violations, Violation{"C15", class, sig, detail})
	}
	type pair struct {
		desc   string
		b      *schema.ScopeSchema
		expect string // "" | compatible | reject
	}
	var pairs []pair
	pairs = append(pairs, pair{"self", A, "compatible"}, pair{"rebuilt-from-recipe", BuildScope(recipe), "compatible"})
	if d, err := selfDesc(A); err == nil {
		var reb *schema.ScopeSchema
		func() {
			defer func() { _ = recover() }()
			if r, err := schema.UnserializeScope(d); err == nil {
				r.ApplySelf()
				reb = r
			}
		}()
		if reb != nil {
			pairs = append(pairs, pair{"rebuilt-from-description", reb, "compatible"})
		} else {
			rec.Probes["description_not_rebuildable"]++
		}
	}
	nm := 2 + tape.Choose("cp.nmut", 4)
	for i := 0; i < nm; i++ {
		mr, d := mutateRecipe(tape, recipe)
		var b *schema.ScopeSchema
		func() {
			defer func() { _ = recover() }()
			b = BuildScope(mr)
		}()
		if b == nil {
			continue
		}
		exp := ""
		if strings.HasPrefix(d, ":!") {
			exp = "reject"
		}
		if d == ":same" {
			exp = "compatible"
		}
		pairs = append(pairs, pair{"mutated" + d, b, exp})
	}
	other := GenScope(tape, GenOpts{MaxObjects: 2, MaxProps: 3, MaxDepth: 1, Prefix: "U"})
	func() {
		defer func() { _ = recover() }()
		pairs = append(pairs, pair{"unrelated", BuildScope(other), ""})
	}()
	sitesDrawn := 0
	var descs []string
	for _, p := range pairs {
		descs = append(descs, p.desc)
		modes := []orderMode{{"natural", 0}, {"random", uint64(tape.Choose("cp.perm", 1<<30))}, {"random", uint64(tape.Choose("cp.perm", 1<<30))}, {"reverse", 0}, {"rotate", 1}, {"rotate", 2}}
		var base pureRes
		bad := false
		for mi, m := range modes {
			var r pureRes
			sitesDrawn += withOrder(m, func() {
				defer func() {
					if x := recover(); x != nil {
						r = pureRes{Panic: fmt.Sprint(x) + " @ " + strings.Join(rt.SUTFrames(string(debug.Stack())), " < ")}
					}
				}()
				r = pureRes{Err: A.ValidateCompatibility(p.b)}
			})
			if mi == 0 {
				base = r
				continue
			}
			if r.Panic != "" && base.Panic == "" {
				base = r // report the panic below
				break
			}
			if (base.Err == nil) != (r.Err == nil) {
				add("mismatch", "verdict-depends-on-map-order", fmt.Sprintf("consumer vs %s: natural order says %s, order %s/%d says %s", p.desc, describeRes(base), m.Name, m.Seed, describeRes(r)))
				bad = true
				break
			}
		}
		if bad {
			break
		}
		if base.Panic != "" {
			fr := base.Panic
			if i := strings.Index(fr, " @ "); i >= 0 {
				fr = fr[i+3:]
			}
			if j := strings.Index(fr, " < "); j >= 0 {
				fr = fr[:j]
			}
			add("panic", "no-verdict: panic in "+fr, fmt.Sprintf("consumer vs %s: ValidateCompatibility panicked instead of returning a verdict: %s", p.desc, base.Panic))
			break
		}
		switch p.expect {
		case "compatible":
			if base.Err != nil {
				add("mismatch", "not-reflexive:"+p.desc, fmt.Sprintf("a schema must be compatible with %s, got: %v", p.desc, base.Err))
			}
			rec.Probes["expect_compatible"]++
		case "reject":
			if base.Err == nil {
				add("mismatch", "unconsumable-producer-accepted"+strings.TrimPrefix(p.desc, "mutated"), fmt.Sprintf("the producer (%s) can never be consumed but ValidateCompatibility returned nil", p.desc))
			}
			rec.Probes["expect_reject"]++
		}
		if base.Err == nil {
			rec.Probes["verdict_compatible"]++
		} else {
			rec.Probes["verdict_incompatible"]++
		}
	}
	sort.Strings(descs)
	rec.Probes["map_iterations_ordered"] = sitesDrawn
	rj, _ := json.Marshal(recipe)
	rec.SchedSig = fmt.Sprintf("%x", fnvString(fmt.Sprint(descs)+string(rj)))
	rec.LogHash = rec.SchedSig
	rec.Nontrivial = sitesDrawn > 0
	rec.Faults["map-order"] = sitesDrawn
	rec.Steps = len(pairs)
	rec.Sample = map[string]any{"pairs": descs, "objects": len(recipe.Objects), "map_iterations_ordered": sitesDrawn}
	if len(rec.Violations) > 0 {
		rec.Outcome = "violation"
	} else {
		rec.Outcome = "ok"
	}
	return rec
}

// pureLibRun is the C12 history check on the struct-mapped library scope (defaults of non-pointer
// object members, sub-object defaults, unit-bearing numbers, a plain sub-object used both as a member
// and as a list item).
func pureLibRun(tape *rt.Tape) RunRecord {
	rec := RunRecord{Faults: map[string]int{}, Probes: map[string]int{}}
	S := buildLibScope()
	desc0, derr := selfDesc(S)
	add := func(class, sig, detail string) {
		rec.Violations = append(rec.Violations, Violation{"C12", class, sig, detail})
	}
	nops := 1 + tape.Choose("pl.nops", 12)
	var pool []any
	var history []string
	sitesDrawn := 0
	for i := 0; i < nops && len(rec.Violations) == 0; i++ {
		op := &pureOp{Kind: []string{"unserialize", "unserialize", "unserialize", "validate", "serialize", "compat-data"}[tape.Choose("pl.kind", 6)]}
		op.Arg = libValues(tape)
		if (op.Kind == "validate" || op.Kind == "serialize") && len(pool) > 0 {
			op.Arg = pool[tape.Choose("pl.pool", len(pool))]
		}
		if (op.Kind == "validate" || op.Kind == "serialize") && tape.Choose("pl.structarg", 4) == 3 {
			// a struct value the caller built itself (not a result of Unserialize): it may break rules
			sv := libRoot{Name: "direct", Size: 5, Wait: 3}
			switch tape.Choose("pl.structexcl", 4) {
			case 1:
				sv.Excl = "e"
			case 2:
				sv.Other = "o"
			case 3:
				sv.Excl, sv.Other = "e", "o"
			}
			op.Arg = sv
		}
		history = append(history, op.Kind+"("+short(op.Arg)+")")
		snapshot := deepCopyValue(op.Arg)
		modes := []orderMode{{"natural", 0}, {"random", uint64(tape.Choose("pl.perm", 1<<30))}, {"reverse", 0}}
		var base pureRes
		for mi, m := range modes {
			var r pureRes
			sitesDrawn += withOrder(m, func() { r = evalOp(S, op, nil) })
			if !reflect.DeepEqual(snapshot, op.Arg) {
				add("mismatch", "argument-modified:"+op.Kind, fmt.Sprintf("op %d (%s) changed its argument from %s to %s", i, op.Kind, short(snapshot), short(op.Arg)))
				break
			}
			if mi == 0 {
				base = r
				continue
			}
			if !sameOutcome(base, r) {
				add("mismatch", "order-dependent:"+op.Kind, fmt.Sprintf("op %d %s: natural order gives %s, order %s gives %s; history=%v", i, op.Kind, describeRes(base), m.Name, describeRes(r), history))
				break
			}
		}
		if len(rec.Violations) > 0 {
			break
		}
		fresh := buildLibScope()
		var fr pureRes
		withOrder(orderMode{"natural", 0}, func() { fr = evalOp(fresh, op, nil) })
		if !sameOutcome(base, fr) {
			add("mismatch", "history-dependent:"+op.Kind, fmt.Sprintf("op %d %s: the used instance gives %s, a fresh instance %s; history=%v", i, op.Kind, describeRes(base), describeRes(fr), history))
			break
		}
		if derr == nil {
			if d, err := selfDesc(S); err != nil || !reflect.DeepEqual(d, desc0) {
				add("mismatch", "schema-changed-by:"+op.Kind, fmt.Sprintf("after op %d the self-description differs: %s", i, firstDiff(desc0, d, "")))
				break
			}
		}
		if op.Kind == "unserialize" && base.Err == nil && base.Panic == "" {
			pool = append(pool, base.Val)
		}
	}
	rec.Probes["map_iterations_ordered"] = sitesDrawn
	rec.SchedSig = fmt.Sprintf("lib-%x", fnvString(fmt.Sprint(history)))
	rec.LogHash = rec.SchedSig
	rec.Nontrivial = sitesDrawn > 0
	rec.Faults["map-order"] = sitesDrawn
	rec.Steps = len(history)
	rec.Sample = map[string]any{"schema": "struct-mapped library scope", "history": history}
	if len(rec.Violations) > 0 {
		rec.Outcome = "violation"
	} else {
		rec.Outcome = "ok"
	}
	return rec
}
