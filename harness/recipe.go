package harness

import (
	"fmt"
	"regexp"
	"sort"
	"strings"
	"sync"

	"go.flow.arcalot.io/pluginsdk/schema"
)

// Src is a source of choices (the tape, directly or through the simulation).
type Src interface {
	Choose(kind string, n int) int
}

func chance(s Src, kind string, num, den int) bool {
	if num <= 0 {
		return false
	}
	if num >= den {
		return true
	}
	return s.Choose(kind, den) >= den-num
}

// ---------------------------------------------------------------- recipes

// TypeRecipe is a buildable description of a schema type.
type TypeRecipe struct {
	Kind         string       `json:"k"`
	Min          *int64       `json:"min,omitempty"`
	Max          *int64       `json:"max,omitempty"`
	FMin         *float64     `json:"fmin,omitempty"`
	FMax         *float64     `json:"fmax,omitempty"`
	Units        string       `json:"units,omitempty"`
	Pattern      string       `json:"pat,omitempty"`
	EnumS        []string     `json:"es,omitempty"`
	EnumI        []int64      `json:"ei,omitempty"`
	Display      bool         `json:"disp,omitempty"`
	Items        *TypeRecipe  `json:"items,omitempty"`
	Keys         *TypeRecipe  `json:"keys,omitempty"`
	Values       *TypeRecipe  `json:"vals,omitempty"`
	Ref          string       `json:"ref,omitempty"`
	Disc         string       `json:"disc,omitempty"`
	Inline       bool         `json:"inline,omitempty"`
	ScopeMembers bool         `json:"scope_members,omitempty"` // one-of members are inline scopes instead of references
	OneOf        [][2]string  `json:"oneof,omitempty"`         // (discriminator value, object id), sorted
	OneOfI       []OneOfIntRe `json:"oneofi,omitempty"`
}

// OneOfIntRe is a member of an int-discriminated one-of.
type OneOfIntRe struct {
	Key int64  `json:"key"`
	Obj string `json:"obj"`
}

// PropRecipe describes an object property.
type PropRecipe struct {
	Name          string     `json:"n"`
	T             TypeRecipe `json:"t"`
	Required      bool       `json:"req,omitempty"`
	RequiredIf    []string   `json:"rif,omitempty"`
	RequiredIfNot []string   `json:"rifn,omitempty"`
	Conflicts     []string   `json:"conf,omitempty"`
	Default       *string    `json:"def,omitempty"`
	Disabled      bool       `json:"dis,omitempty"`
	NoReason      bool       `json:"dis_noreason,omitempty"` // disabled without a reason text
}

// ObjectRecipe describes a map-based object.
type ObjectRecipe struct {
	ID         string       `json:"id"`
	Props      []PropRecipe `json:"props"`
	Unenforced bool         `json:"unenf,omitempty"`
}

// ScopeRecipe describes a scope.
type ScopeRecipe struct {
	Root    string         `json:"root"`
	Objects []ObjectRecipe `json:"objects"`
}

func (sr *ScopeRecipe) object(id string) *ObjectRecipe {
	for i := range sr.Objects {
		if sr.Objects[i].ID == id {
			return &sr.Objects[i]
		}
	}
	return nil
}

func i64(v int64) *int64     { return &v }
func f64(v float64) *float64 { return &v }
func strp(v string) *string  { return &v }
func disp(name string) *schema.DisplayValue {
	return schema.NewDisplayValue(strp(name), strp("desc of "+name), nil)
}

func unitsByName(n string) *schema.UnitsDefinition {
	switch n {
	case "bytes":
		return schema.UnitBytes
	case "dur_ns":
		return schema.UnitDurationNanoseconds
	case "dur_s":
		return schema.UnitDurationSeconds
	case "chars":
		return schema.UnitCharacters
	case "percent":
		return schema.UnitPercentage
	case "custom":
		// a fresh definition per build: first-use caches are per instance
		return schema.NewUnits(
			schema.NewUnit("w", "w", "widget", "widgets"),
			map[int64]*schema.UnitDefinition{
				12:   schema.NewUnit("dz", "dz", "dozen", "dozens"),
				144:  schema.NewUnit("gr", "gr", "gross", "gross"),
				1728: schema.NewUnit("gg", "gg", "great gross", "great gross"),
			})
	}
	return nil
}

// scopeOf is the scope recipe being built (builders run on one goroutine at a time per process stage;
// it only serves inline-scope one-of members).
var scopeOf *ScopeRecipe

// leafObject reports whether an object has no references of its own (so that it can stand alone in an inline scope).
func leafObject(o *ObjectRecipe) bool {
	var refs func(t *TypeRecipe) bool
	refs = func(t *TypeRecipe) bool {
		if t == nil {
			return false
		}
		switch t.Kind {
		case "ref", "oneof_s", "oneof_i":
			return true
		}
		return refs(t.Items) || refs(t.Keys) || refs(t.Values)
	}
	for i := range o.Props {
		if refs(&o.Props[i].T) {
			return false
		}
	}
	return true
}

// refClosure returns the object with the given id followed by every object it reaches through plain references
// (also inside lists and maps); ok is false if a one-of is reached (those stay references into the outer scope).
func refClosure(sc *ScopeRecipe, id string) (objs []*ObjectRecipe, ok bool) {
	seen := map[string]bool{}
	ok = true
	var visitObj func(id string)
	var visitType func(t *TypeRecipe)
	visitType = func(t *TypeRecipe) {
		if t == nil || !ok {
			return
		}
		switch t.Kind {
		case "oneof_s", "oneof_i":
			ok = false
			return
		case "ref":
			visitObj(t.Ref)
		}
		visitType(t.Items)
		visitType(t.Keys)
		visitType(t.Values)
	}
	visitObj = func(id string) {
		if seen[id] || !ok {
			return
		}
		o := sc.object(id)
		if o == nil {
			ok = false
			return
		}
		seen[id] = true
		objs = append(objs, o)
		for i := range o.Props {
			visitType(&o.Props[i].T)
		}
	}
	visitObj(id)
	return objs, ok
}

// BuildType builds a fresh schema type from a recipe.
func BuildType(t *TypeRecipe) schema.Type {
	switch t.Kind {
	case "int":
		return schema.NewIntSchema(t.Min, t.Max, unitsByName(t.Units))
	case "float":
		return schema.NewFloatSchema(t.FMin, t.FMax, unitsByName(t.Units))
	case "string":
		var re *regexp.Regexp
		if t.Pattern != "" {
			re = regexp.MustCompile(t.Pattern)
		}
		return schema.NewStringSchema(t.Min, t.Max, re)
	case "bool":
		return schema.NewBoolSchema()
	case "pattern":
		return schema.NewPatternSchema()
	case "enum_s":
		m := map[string]*schema.DisplayValue{}
		for _, v := range t.EnumS {
			if t.Display {
				m[v] = disp(v)
			} else {
				m[v] = schema.NewDisplayValue(nil, nil, nil)
			}
		}
		return schema.NewStringEnumSchema(m)
	case "enum_i":
		m := map[int64]*schema.DisplayValue{}
		for _, v := range t.EnumI {
			if t.Display {
				m[v] = disp(fmt.Sprint(v))
			} else {
				m[v] = schema.NewDisplayValue(nil, nil, nil)
			}
		}
		return schema.NewIntEnumSchema(m, unitsByName(t.Units))
	case "list":
		return schema.NewListSchema(BuildType(t.Items), t.Min, t.Max)
	case "map":
		return schema.NewMapSchema(BuildType(t.Keys), BuildType(t.Values), t.Min, t.Max)
	case "any":
		return schema.NewAnySchema()
	case "ref":
		return schema.NewRefSchema(t.Ref, nil)
	case "oneof_s":
		m := map[string]schema.Object{}
		// discriminator values that select the same object share one reference value, as hand-written
		// schemas with aliased members do
		refs := map[string]*schema.RefSchema{}
		for _, kv := range t.OneOf {
			if t.ScopeMembers && scopeOf != nil {
				if o := scopeOf.object(kv[1]); o != nil && leafObject(o) {
					// an inline scope of its own around a copy of the member object
					m[kv[0]] = schema.NewScopeSchema(BuildObject(o))
					continue
				} else if o != nil {
					// a nested scope with references of its own: the member object and everything it refers to
					if objs, ok := refClosure(scopeOf, kv[1]); ok {
						var built []*schema.ObjectSchema
						for _, c := range objs {
							built = append(built, BuildObject(c))
						}
						m[kv[0]] = schema.NewScopeSchema(built[0], built[1:]...)
						continue
					}
				}
			}
			if refs[kv[1]] == nil {
				refs[kv[1]] = schema.NewRefSchema(kv[1], nil)
			}
			m[kv[0]] = refs[kv[1]]
		}
		return schema.NewOneOfStringSchema[any](m, t.Disc, t.Inline)
	case "oneof_i":
		m := map[int64]schema.Object{}
		for _, kv := range t.OneOfI {
			m[kv.Key] = schema.NewRefSchema(kv.Obj, nil)
		}
		return schema.NewOneOfIntSchema[any](m, t.Disc, t.Inline)
	}
	panic("unknown type kind " + t.Kind)
}

// BuildObject builds a fresh object schema.
func BuildObject(o *ObjectRecipe) *schema.ObjectSchema {
	props := map[string]*schema.PropertySchema{}
	for i := range o.Props {
		p := &o.Props[i]
		ps := schema.NewPropertySchema(BuildType(&p.T), disp(p.Name), p.Required, p.RequiredIf, p.RequiredIfNot, p.Conflicts, p.Default, nil)
		if p.Disabled && p.NoReason {
			ps.Disabled = true
		} else if p.Disabled {
			ps.Disable("disabled by recipe")
		}
		props[p.Name] = ps
	}
	if o.Unenforced {
		return schema.NewUnenforcedIDObjectSchema(o.ID, props)
	}
	return schema.NewObjectSchema(o.ID, props)
}

// BuildScope builds a fresh scope schema.
func BuildScope(sr *ScopeRecipe) *schema.ScopeSchema {
	buildMu.Lock()
	defer buildMu.Unlock()
	scopeOf = sr
	defer func() { scopeOf = nil }()
	var root *schema.ObjectSchema
	var rest []*schema.ObjectSchema
	for i := range sr.Objects {
		o := BuildObject(&sr.Objects[i])
		if sr.Objects[i].ID == sr.Root {
			root = o
		} else {
			rest = append(rest, o)
		}
	}
	return schema.NewScopeSchema(root, rest...)
}

var buildMu sync.Mutex

// ---------------------------------------------------------------- generation

var wordList = []string{"alpha", "beta", "gamma", "delta", "eps", "zeta", "eta", "theta", "iota", "kappa"}

// GenOpts tunes the recipe generator.
type GenOpts struct {
	MaxObjects int
	MaxProps   int
	MaxDepth   int
	NoOneOf    bool
	NoAny      bool
	NoRules    bool // no required_if / conflicts / disabled
	Recursive  bool // allow references that form cycles (through optional properties)
	NeedNonce  bool // root object gets a required string property "nonce"
	Prefix     string
	// NegativeBounds: integer bounds may be negative (such schemas cannot be self-described - the meta-schema
	// wants bounds >= 0 - so only checks that never need the description use them)
	NegativeBounds bool
}

type gen struct {
	s     Src
	o     GenOpts
	scope *ScopeRecipe
	nobj  int
}

// GenScope draws a scope recipe.
func GenScope(s Src, o GenOpts) *ScopeRecipe {
	if o.MaxObjects == 0 {
		o.MaxObjects = 3
	}
	if o.MaxProps == 0 {
		o.MaxProps = 4
	}
	if o.MaxDepth == 0 {
		o.MaxDepth = 2
	}
	g := &gen{s: s, o: o, scope: &ScopeRecipe{}}
	n := 1 + s.Choose("g.nobj", o.MaxObjects)
	ids := make([]string, n)
	for i := range ids {
		ids[i] = fmt.Sprintf("%sObj%d", o.Prefix, i)
	}
	g.scope.Root = ids[0]
	g.nobj = n
	// objects are generated last to first so that references point "down"
	// (no cycles) unless Recursive is set
	objs := make([]ObjectRecipe, n)
	for i := n - 1; i >= 0; i-- {
		objs[i] = g.object(ids, i)
	}
	if o.NeedNonce {
		objs[0].Props = append([]PropRecipe{
			{Name: "nonce", T: TypeRecipe{Kind: "string"}, Required: true},
			{Name: "blob", T: TypeRecipe{Kind: "string"}},
		}, objs[0].Props...)
	}
	g.scope.Objects = objs
	return g.scope
}

func (g *gen) object(ids []string, idx int) ObjectRecipe {
	o := ObjectRecipe{ID: ids[idx]}
	np := g.s.Choose("g.nprop", g.o.MaxProps+1)
	if idx > 0 && np == 0 {
		np = 1
	}
	var names []string
	for i := 0; i < np; i++ {
		name := fmt.Sprintf("%s%d", wordList[g.s.Choose("g.word", len(wordList))], i)
		names = append(names, name)
	}
	for i, name := range names {
		p := PropRecipe{Name: name, T: g.typ(ids, idx, 0, true)}
		switch g.s.Choose("g.presence", 6) {
		case 0, 1:
			p.Required = true
		case 2, 3:
			// optional
		case 4:
			// optional with default
			if d := g.defaultFor(&p.T); d != nil {
				p.Default = d
			}
		case 5:
			if !g.o.NoRules && len(names) > 1 {
				others := []string{names[(i+1)%len(names)]}
				if len(names) > 2 && g.s.Choose("g.rule2", 2) == 1 {
					// rule lists with several entries: which entry triggers depends on the input
					others = append(others, names[(i+2)%len(names)])
				}
				switch g.s.Choose("g.rule", 4) {
				case 0:
					p.RequiredIf = others
				case 1:
					p.RequiredIfNot = others
				case 2:
					p.Conflicts = others
				case 3:
					p.Disabled = true
					p.NoReason = g.s.Choose("g.noreason", 2) == 1
				}
			}
		}
		// a reference that may form a cycle must be optional
		if p.T.Kind == "ref" && g.o.Recursive {
			p.Required = false
		}
		o.Props = append(o.Props, p)
	}
	if g.s.Choose("g.unenf", 8) == 7 {
		o.Unenforced = true
	}
	return o
}

func (g *gen) defaultFor(t *TypeRecipe) *string {
	switch t.Kind {
	case "int":
		v := int64(5)
		if t.Min != nil {
			v = *t.Min
		}
		if t.Max != nil && v > *t.Max {
			v = *t.Max
		}
		return strp(fmt.Sprint(v))
	case "float":
		v := 1.5
		if t.FMin != nil {
			v = *t.FMin
		}
		return strp(fmt.Sprint(v))
	case "string":
		if t.Pattern != "" {
			return nil
		}
		n := int64(3)
		if t.Min != nil && *t.Min > n {
			n = *t.Min
		}
		if t.Max != nil && *t.Max < n {
			n = *t.Max
		}
		return strp(fmt.Sprintf("%q", strings.Repeat("d", int(n))))
	case "bool":
		return strp("true")
	case "enum_s":
		return strp(fmt.Sprintf("%q", t.EnumS[0]))
	case "enum_i":
		return strp(fmt.Sprint(t.EnumI[0]))
	case "list":
		if t.Min == nil || *t.Min == 0 {
			return strp("[]")
		}
	case "map":
		if t.Min == nil || *t.Min == 0 {
			return strp("{}")
		}
	}
	return nil
}

func (g *gen) typ(ids []string, idx int, depth int, allowObj bool) TypeRecipe {
	kinds := []string{"int", "int", "string", "string", "bool", "float", "enum_s", "enum_i", "pattern", "list", "map"}
	if !g.o.NoAny {
		kinds = append(kinds, "any")
	}
	canRef := allowObj && (idx+1 < len(ids) || g.o.Recursive)
	if canRef {
		kinds = append(kinds, "ref", "ref")
		if !g.o.NoOneOf && idx+1 < len(ids) {
			kinds = append(kinds, "oneof_s", "oneof_i")
		}
	}
	if depth >= g.o.MaxDepth {
		kinds = kinds[:9]
	}
	k := kinds[g.s.Choose("g.kind", len(kinds))]
	t := TypeRecipe{Kind: k}
	switch k {
	case "int":
		switch g.s.Choose("g.ibounds", 4) {
		case 1:
			t.Min = i64(int64(g.s.Choose("g.imin", 10)))
		case 2:
			t.Max = i64(int64(g.s.Choose("g.imax", 1000)) + 5)
		case 3:
			t.Min = i64(int64(g.s.Choose("g.imin", 10)))
			t.Max = i64(*t.Min + int64(g.s.Choose("g.ispan", 100000)))
		}
		if g.o.NegativeBounds && g.s.Choose("g.ineg", 3) == 2 {
			// shift the range below zero
			shift := int64(20 + g.s.Choose("g.inegshift", 200000))
			if t.Min != nil {
				t.Min = i64(*t.Min - shift)
			}
			if t.Max != nil {
				t.Max = i64(*t.Max - shift)
			}
		}
		t.Units = []string{"", "", "bytes", "dur_ns", "dur_s", "chars", "percent", "custom"}[g.s.Choose("g.units", 8)]
	case "float":
		switch g.s.Choose("g.fbounds", 3) {
		case 1:
			t.FMin = f64(float64(g.s.Choose("g.fmin", 10)) / 2)
		case 2:
			t.FMin = f64(0)
			t.FMax = f64(float64(g.s.Choose("g.fmax", 100000)) + 1)
		}
		t.Units = []string{"", "", "dur_s", "percent", "bytes"}[g.s.Choose("g.funits", 5)]
	case "string":
		switch g.s.Choose("g.sbounds", 4) {
		case 1:
			t.Min = i64(int64(g.s.Choose("g.smin", 4)))
		case 2:
			t.Max = i64(int64(g.s.Choose("g.smax", 40)) + 4)
		case 3:
			t.Pattern = []string{"^[a-z0-9]+$", "^x", "[0-9]$"}[g.s.Choose("g.spat", 3)]
		}
	case "enum_s":
		n := 1 + g.s.Choose("g.nenum", 4)
		for i := 0; i < n; i++ {
			t.EnumS = append(t.EnumS, fmt.Sprintf("%s%d", wordList[g.s.Choose("g.eword", len(wordList))], i))
		}
		t.Display = g.s.Choose("g.edisp", 2) == 1
	case "enum_i":
		n := 1 + g.s.Choose("g.nenum", 4)
		base := int64(g.s.Choose("g.ebase", 50))
		for i := 0; i < n; i++ {
			t.EnumI = append(t.EnumI, base+int64(i)*int64(1+g.s.Choose("g.estep", 7)))
		}
		// dedupe
		sort.Slice(t.EnumI, func(a, b int) bool { return t.EnumI[a] < t.EnumI[b] })
		out := t.EnumI[:1]
		for _, v := range t.EnumI[1:] {
			if v != out[len(out)-1] {
				out = append(out, v)
			}
		}
		t.EnumI = out
		t.Display = g.s.Choose("g.edisp", 2) == 1
	case "list":
		it := g.typ(ids, idx, depth+1, allowObj)
		t.Items = &it
		switch g.s.Choose("g.lbounds", 3) {
		case 1:
			t.Min = i64(int64(g.s.Choose("g.lmin", 3)))
		case 2:
			t.Max = i64(int64(g.s.Choose("g.lmax", 5)) + 2)
		}
	case "map":
		kt := TypeRecipe{Kind: "string"}
		if g.s.Choose("g.mkey", 3) == 1 {
			kt = TypeRecipe{Kind: "int"}
		}
		vt := g.typ(ids, idx, depth+1, allowObj)
		t.Keys, t.Values = &kt, &vt
		if g.s.Choose("g.mbounds", 3) == 1 {
			t.Max = i64(int64(g.s.Choose("g.mmax", 4)) + 3)
		}
	case "ref":
		t.Ref = g.refTarget(ids, idx)
	case "oneof_s", "oneof_i":
		t.Disc = []string{"_type", "kind"}[g.s.Choose("g.disc", 2)]
		n := 1 + g.s.Choose("g.noneof", len(ids)-idx-1)
		for i := 0; i < n; i++ {
			obj := ids[idx+1+i]
			if k == "oneof_s" {
				if i == 0 {
					t.ScopeMembers = g.s.Choose("g.scopemembers", 4) == 3
				}
				t.OneOf = append(t.OneOf, [2]string{fmt.Sprintf("m%d", i), obj})
				// aliases: several discriminator values may select the same member object
				if g.s.Choose("g.alias", 3) == 2 {
					t.OneOf = append(t.OneOf, [2]string{fmt.Sprintf("a%d", i), obj})
				}
			} else {
				t.OneOfI = append(t.OneOfI, OneOfIntRe{Key: int64(i + 1), Obj: obj})
			}
		}
	}
	return t
}

func (g *gen) refTarget(ids []string, idx int) string {
	if g.o.Recursive && g.s.Choose("g.rec", 3) == 2 {
		return ids[g.s.Choose("g.reftgt", len(ids))]
	}
	if idx+1 >= len(ids) {
		return ids[idx]
	}
	return ids[idx+1+g.s.Choose("g.reftgt", len(ids)-idx-1)]
}

// ---------------------------------------------------------------- values

// ValGen draws raw (wire-form) values for recipes.
type ValGen struct {
	S         Src
	Scope     *ScopeRecipe
	Corrupt   bool // corrupt one node
	done      bool
	depth     int
	InProcess bool // values are used in process only (no CBOR transport in between)
}

// (InProcess, a field of ValGen: the generated values never cross a CBOR transport, so shapes CBOR cannot carry
// unambiguously may be drawn.)

func (v *ValGen) corruptHere() bool {
	if !v.Corrupt || v.done {
		return false
	}
	if v.S.Choose("v.corrupt", 4) == 3 {
		v.done = true
		return true
	}
	return false
}

// Object draws a value for the object with the given id.
func (v *ValGen) Object(id string, extra map[string]any) map[string]any {
	o := v.Scope.object(id)
	out := map[string]any{}
	v.depth++
	defer func() { v.depth-- }()
	present := map[string]bool{}
	for i := range o.Props {
		p := &o.Props[i]
		if p.Disabled {
			continue
		}
		include := p.Required
		if !include {
			include = v.depth < 4 && v.S.Choose("v.opt", 2) == 1
		}
		if p.T.Kind == "ref" && v.depth >= 4 {
			include = p.Required
		}
		if include {
			present[p.Name] = true
		}
	}
	// satisfy simple rules most of the time
	for i := range o.Props {
		p := &o.Props[i]
		for _, r := range p.RequiredIf {
			if present[r] && !p.Disabled {
				if !present[p.Name] && v.corruptHere() {
					continue // leave the rule violated: the property stays absent although a trigger is set
				}
				present[p.Name] = true
			}
		}
		for _, r := range p.RequiredIfNot {
			if !present[r] && !p.Disabled {
				present[p.Name] = true
			}
		}
	}
	for i := range o.Props {
		p := &o.Props[i]
		for _, r := range p.Conflicts {
			if present[p.Name] && present[r] && !p.Required {
				delete(present, p.Name)
			}
		}
	}
	for i := range o.Props {
		p := &o.Props[i]
		if p.Disabled && v.Corrupt && !v.done && v.S.Choose("v.usedisabled", 3) == 2 {
			v.done = true
			out[p.Name] = v.Type(&p.T) // a disabled property is used: rejected
			continue
		}
		if !present[p.Name] {
			continue
		}
		if p.Required && v.corruptHere() {
			continue // missing required
		}
		out[p.Name] = v.Type(&p.T)
	}
	for k, x := range extra {
		out[k] = x
	}
	if v.corruptHere() {
		out["undeclared_key"] = 1
	}
	return out
}

// Type draws a value for a type recipe.
func (v *ValGen) Type(t *TypeRecipe) any {
	s := v.S
	if v.corruptHere() {
		switch s.Choose("v.wrong", 3) {
		case 0:
			return []any{"wrong", "type"}
		case 1:
			return map[string]any{"wrong": "type"}
		default:
			return nil
		}
	}
	switch t.Kind {
	case "int":
		lo, hi := int64(0), int64(100000)
		if t.Min != nil {
			lo = *t.Min
		}
		if t.Max != nil {
			hi = *t.Max
		}
		if hi < lo {
			hi = lo
		}
		var n int64
		switch s.Choose("v.ipick", 4) {
		case 0:
			n = lo
		case 1:
			n = hi
		default:
			n = lo + int64(s.Choose("v.ival", int(minI64(hi-lo, 1<<20))+1))
		}
		if v.corruptHere() {
			if t.Min != nil {
				n = *t.Min - 1
			} else if t.Max != nil {
				n = *t.Max + 1
			} else {
				return "not-a-number"
			}
		}
		switch s.Choose("v.irep", 5) {
		case 1:
			return int(n)
		case 2:
			return fmt.Sprint(n)
		case 3:
			if t.Units != "" && n >= 0 {
				if u := unitsByName(t.Units); u != nil {
					return u.FormatShortInt(n)
				}
			}
			return n
		case 4:
			if n >= 0 {
				return uint64(n)
			}
		}
		return n
	case "float":
		lo, hi := -10.0, 1000.0
		if t.FMin != nil {
			lo = *t.FMin
		}
		if t.FMax != nil {
			hi = *t.FMax
		}
		f := lo + (hi-lo)*float64(s.Choose("v.fval", 1001))/1000
		if v.corruptHere() {
			if t.FMin != nil {
				f = *t.FMin - 1
			} else {
				return "nan-ish"
			}
		}
		switch s.Choose("v.frep", 3) {
		case 1:
			return float32(f)
		case 2:
			return fmt.Sprint(f)
		}
		return f
	case "string":
		n := 1 + s.Choose("v.slen", 12)
		if t.Min != nil && int64(n) < *t.Min {
			n = int(*t.Min)
		}
		if t.Max != nil && int64(n) > *t.Max {
			n = int(*t.Max)
		}
		str := strings.Repeat("x", 1) + strings.Repeat(string(rune('a'+s.Choose("v.sch", 26))), maxInt(n-2, 0))
		if n >= 2 {
			str += "7"
		}
		if n == 0 {
			str = ""
		}
		if v.corruptHere() {
			if t.Max != nil {
				return strings.Repeat("y", int(*t.Max)+1)
			}
			if t.Pattern != "" {
				return "UPPER CASE!"
			}
			return 12.5
		}
		return str
	case "bool":
		switch s.Choose("v.brep", 4) {
		case 1:
			return "yes"
		case 2:
			return int64(s.Choose("v.bint", 2))
		}
		return s.Choose("v.bval", 2) == 1
	case "pattern":
		if v.corruptHere() {
			return "(unclosed"
		}
		return []string{"^a+$", "[0-9]{2}", "foo|bar"}[s.Choose("v.pat", 3)]
	case "enum_s":
		if v.corruptHere() {
			return "not-in-enum"
		}
		return t.EnumS[s.Choose("v.enum", len(t.EnumS))]
	case "enum_i":
		if v.corruptHere() {
			return int64(-99999)
		}
		n := t.EnumI[s.Choose("v.enum", len(t.EnumI))]
		if s.Choose("v.erep", 3) == 1 {
			return fmt.Sprint(n)
		}
		return n
	case "list":
		n := s.Choose("v.llen", 4)
		if t.Min != nil && int64(n) < *t.Min {
			n = int(*t.Min)
		}
		if t.Max != nil && int64(n) > *t.Max {
			n = int(*t.Max)
		}
		if v.corruptHere() && t.Max != nil {
			n = int(*t.Max) + 1
		}
		out := make([]any, 0, n)
		v.depth++
		for i := 0; i < n; i++ {
			out = append(out, v.Type(t.Items))
		}
		v.depth--
		return out
	case "map":
		n := s.Choose("v.mlen", 4)
		if t.Max != nil && int64(n) > *t.Max {
			n = int(*t.Max)
		}
		useAnyKeys := s.Choose("v.mrep", 2) == 1
		outS := map[string]any{}
		outA := map[any]any{}
		v.depth++
		for i := 0; i < n; i++ {
			var k any
			switch t.Keys.Kind {
			case "int":
				k = int64(i * 3)
			case "enum_s":
				k = t.Keys.EnumS[i%len(t.Keys.EnumS)]
			default:
				k = fmt.Sprintf("k%d", i)
			}
			val := v.Type(t.Values)
			outA[k] = val
			outS[fmt.Sprint(k)] = val
		}
		if t.Keys.Kind == "int" && n >= 1 && (t.Max == nil || int64(n) < *t.Max) && s.Choose("v.mdupkey", 4) == 3 {
			// two raw keys that mean the same key (0 and "0"), with values of their own
			outA["0"] = v.Type(t.Values)
		}
		v.depth--
		if useAnyKeys || t.Keys.Kind == "int" {
			return outA
		}
		return outS
	case "any":
		switch s.Choose("v.any", 5) {
		case 0:
			return int64(s.Choose("v.anyi", 1000))
		case 1:
			return "anystr"
		case 2:
			// callers hand over lists whose items are not in canonical form yet
			switch s.Choose("v.anyrep", 5) {
			case 1:
				return []any{int(1), "two", float32(3.5)}
			case 2:
				return []any{uint8(7), map[string]any{"k": int32(3)}, []any{int16(2), "x"}}
			case 3:
				return []int{1, 2, 3}
			case 4:
				if v.Corrupt {
					// the last item is not an acceptable value: the call is rejected half-way
					return []any{int(1), []any{uint16(5)}, nil}
				}
				return []any{int(1), []any{uint16(5)}, int8(-3)}
			}
			return []any{int64(1), "two", 3.5}
		case 3:
			switch s.Choose("v.anyrep", 4) {
			case 1:
				return map[string]any{"a": int(1), "b": []any{true, int8(2)}, "c": map[string]any{"d": float32(0.5)}}
			case 2:
				return map[any]any{"a": uint(1), int64(2): []any{int(3)}}
			case 3:
				if v.InProcess {
					// two raw keys that are one key once normalised (only for values that stay in the process:
					// CBOR would encode both as the key 1, and which one a decoder keeps is not defined)
					return map[any]any{int(1): "from-int", int64(1): "from-int64", "z": true}
				}
				return map[any]any{int(1): "from-int", int64(2): "from-int64", "z": true}
			}
			return map[string]any{"a": int64(1), "b": []any{true}}
		}
		return 2.25
	case "ref":
		if v.depth >= 6 {
			return map[string]any{}
		}
		return v.Object(t.Ref, nil)
	case "oneof_s":
		m := t.OneOf[s.Choose("v.oneof", len(t.OneOf))]
		disc := any(m[0])
		if v.corruptHere() {
			disc = "no-such-member"
		}
		return v.Object(m[1], map[string]any{t.Disc: disc})
	case "oneof_i":
		m := t.OneOfI[s.Choose("v.oneof", len(t.OneOfI))]
		disc := any(m.Key)
		if v.corruptHere() {
			disc = int64(424242)
		}
		return v.Object(m.Obj, map[string]any{t.Disc: disc})
	}
	return nil
}

func minI64(a, b int64) int64 {
	if a < b {
		return a
	}
	return b
}

func maxInt(a, b int) int {
	if a > b {
		return a
	}
	return b
}
