package harness

import (
	"bytes"
	"encoding/json"
	"fmt"
	"io"
	"reflect"
	"sort"
	"strings"
	"sync"
	"testing"
	"time"

	"github.com/fxamacker/cbor/v2"
	"go.flow.arcalot.io/pluginsdk/atp"
	"go.flow.arcalot.io/pluginsdk/schema"
	rt "go.flow.arcalot.io/pluginsdk/zzsimrt"
	"go.flow.arcalot.io/pluginsdk/zzsimrt/simsync"
)

// ---------------------------------------------------------------- plan

// Resp is how the scripted server answers one work-start.
type Resp struct {
	Kind       string `json:"kind"` // workdone | stepfatal | serverfatal | stepfatal-norun
	OutputID   string `json:"output_id,omitempty"`
	PreErrors  int    `json:"pre_errors,omitempty"`  // non-fatal error messages sent before the answer
	PreSignals int    `json:"pre_signals,omitempty"` // signals emitted by the step before the answer
	PreUnknown int    `json:"pre_unknown,omitempty"` // messages with an unknown message ID before the answer
	// PostSignals: signals of the run that arrive after its work-done (an asynchronous plugin's forwarder may be
	// late); the client is expected to ignore them
	PostSignals int `json:"post_signals,omitempty"`
	DelayMs     int `json:"delay_ms,omitempty"`
	// Data, when set, is the output data the peer answers with (the in-process result of the step on a
	// reference plugin) instead of an echo of the input
	Data    any  `json:"data,omitempty"`
	HasData bool `json:"has_data,omitempty"`
}

// CCall is one Execute of a client-side workload.
type CCall struct {
	RunID     string `json:"run_id"`
	Step      string `json:"step"`
	Nonce     string `json:"nonce"`
	Input     any    `json:"input"`
	Resp      Resp   `json:"resp"`
	Signals   []Sig  `json:"signals,omitempty"`
	WithChans bool   `json:"with_chans,omitempty"`
	KeepOpen  bool   `json:"keep_open,omitempty"` // the caller leaves signalsToStep open until the session is over (allowed: closing is only recommended)
}

// ClientFault is the fault of one run / sub-run.
type ClientFault struct {
	Base     uint64 `json:"base"`
	Kind     string `json:"kind"` // "", eof, ioerr, garbage, stall, flip (one corrupted byte, the stream goes on)
	At       int64  `json:"at"`
	JunkSeed int    `json:"junk_seed,omitempty"`
	StallMs  int    `json:"stall_ms,omitempty"`
	Mask     int    `json:"mask,omitempty"` // flip: XOR mask of the corrupted byte
	WriteAt  int64  `json:"write_at"`       // client->server write fault offset (-1 = none)
}

// ClientPlan is the pre-drawn part of a C08 run.
type ClientPlan struct {
	Plugin    *PluginRecipe   `json:"plugin"`
	Version   int64           `json:"version"`
	BadSchema bool            `json:"bad_schema,omitempty"` // hello carries a schema that does not unserialize
	Callers   [][]CCall       `json:"callers"`
	C2S       rt.PipeConfig   `json:"c2s"`
	S2C       rt.PipeConfig   `json:"s2c"`
	Features  map[string]bool `json:"features"`
	Healthy   bool            `json:"healthy"` // the scripted peer follows the protocol (C06 peer P2)
	// ExitAfterLast (v1): the plugin process exits right after its last answer, as real v1 plugins do, so the
	// last bytes and the end of the stream may reach the client in one Read
	ExitAfterLast bool `json:"exit_after_last,omitempty"`
}

// ClientOpts selects transcript features.
type ClientOpts struct {
	V1          bool
	MaxCallers  int
	MaxCalls    int
	Signals     bool
	Errors      bool // step-fatal / non-fatal error messages
	ServerFatal bool
	BadVersion  bool
	BadSchema   bool
	RealAnswers bool // the peer is a stub plugin: it answers with what CallStep returns in process
	Unknown     bool
	Delays      bool
}

func clientOptsFor(batch string) ClientOpts {
	switch batch {
	case "c08.v3", "c08.crash":
		return ClientOpts{MaxCallers: 3, MaxCalls: 2, Signals: true, Errors: true, Delays: true, Unknown: true}
	case "c08.v1", "c08.crashv1":
		return ClientOpts{V1: true, MaxCallers: 1, MaxCalls: 3}
	case "c08.hello":
		return ClientOpts{MaxCallers: 1, MaxCalls: 1, BadVersion: true, BadSchema: true}
	case "c08.fatal":
		return ClientOpts{MaxCallers: 3, MaxCalls: 2, Signals: true, Errors: true, ServerFatal: true, Delays: true}
	case "c06.peer":
		return ClientOpts{MaxCallers: 3, MaxCalls: 3, Signals: true, Errors: true, Delays: true, Unknown: true}
	case "c06.peerv1":
		return ClientOpts{V1: true, MaxCallers: 1, MaxCalls: 4}
	case "c05.v1":
		return ClientOpts{V1: true, MaxCallers: 1, MaxCalls: 4, RealAnswers: true}
	}
	return ClientOpts{MaxCallers: 2, MaxCalls: 2}
}

// PlanClient draws a transcript.
func PlanClient(s Src, o ClientOpts) *ClientPlan {
	p := &ClientPlan{Features: map[string]bool{}, Version: 3, Healthy: true}
	p.Plugin = GenPlugin(s, false)
	for i := range p.Plugin.Steps {
		p.Plugin.Steps[i].HasSignals = true
		p.Plugin.Steps[i].Emitter = true
		p.Plugin.Steps[i].SameSignalID = i%2 == 0
	}
	if o.V1 {
		p.Version = 1
		p.Features["v1"] = true
	}
	if o.BadVersion && chance(s, "cl.badver", 1, 3) {
		p.Version = []int64{0, 2, 4, -1, 1 << 40}[s.Choose("cl.badverval", 5)]
		p.Features["bad_version"] = true
		p.Healthy = false
	}
	if o.BadSchema && chance(s, "cl.badschema", 1, 3) {
		p.BadSchema = true
		p.Features["bad_schema"] = true
		p.Healthy = false
	}
	p.C2S = drawPipe(s, "c2s", false)
	p.S2C = drawPipe(s, "s2c", false)
	if o.V1 {
		p.ExitAfterLast = s.Choose("cl.exitafterlast", 2) == 1
	}
	ncallers := 1
	if o.MaxCallers > 1 {
		ncallers = 1 + s.Choose("cl.ncallers", o.MaxCallers)
	}
	callNo := 0
	for c := 0; c < ncallers; c++ {
		n := 1 + s.Choose("cl.ncalls", o.MaxCalls)
		var calls []CCall
		for i := 0; i < n; i++ {
			callNo++
			st := &p.Plugin.Steps[s.Choose("cl.step", len(p.Plugin.Steps))]
			call := CCall{RunID: fmt.Sprintf("run-%d", callNo), Step: st.ID, Nonce: fmt.Sprintf("nonce-%d", callNo)}
			vg := &ValGen{S: s, Scope: &st.Input}
			call.Input = vg.Object(st.Input.Root, map[string]any{"nonce": call.Nonce})
			call.Resp = Resp{Kind: "workdone", OutputID: []string{"success", "alt", "error"}[s.Choose("cl.outid", 3)]}
			if o.RealAnswers {
				// a v1 stub plugin: the answer is what the step returns in process; v1 has no error message,
				// so calls whose reference fails are left out of the transcript
				beh := Behaviour{Kind: []string{"ok", "ok", "alt", "error"}[s.Choose("cl.beh", 4)]}
				ref := BuildPlugin(p.Plugin, newRecorder(map[string]Behaviour{call.Nonce: beh}))
				nin, nerr := Norm(call.Input)
				if nerr != nil {
					continue
				}
				want := RefCall(ref, call.RunID, call.Step, nin)
				if want.Err != nil {
					continue
				}
				call.Resp.OutputID, call.Resp.Data, call.Resp.HasData = want.OutputID, want.Data, true
			}
			if o.Errors && !o.V1 {
				switch s.Choose("cl.respkind", 8) {
				case 1:
					call.Resp.Kind = "stepfatal"
					p.Features["step_fatal"] = true
				case 2:
					call.Resp.PreErrors = 1 + s.Choose("cl.preerr", 2)
					p.Features["nonfatal_errors"] = true
				}
			}
			if o.ServerFatal && chance(s, "cl.srvfatal", 1, 5) {
				call.Resp.Kind = "serverfatal"
				p.Features["server_fatal"] = true
				p.Healthy = false // a server-fatal error legitimately fails every other call
			}
			if o.Unknown && !o.V1 && chance(s, "cl.unknown", 1, 8) {
				call.Resp.PreUnknown = 1
				p.Features["unknown_msg"] = true
			}
			if o.Delays && chance(s, "cl.delay", 1, 3) {
				call.Resp.DelayMs = 1 + s.Choose("cl.delayms", 3000)
			}
			if o.Signals && !o.V1 && chance(s, "cl.chans", 1, 2) {
				call.WithChans = true
				ns := s.Choose("cl.nsig", 3)
				for k := 0; k < ns; k++ {
					call.Signals = append(call.Signals, Sig{ID: "poke", Data: map[string]any{"k": int64(s.Choose("cl.sigk", 1000))}})
				}
				call.KeepOpen = s.Choose("cl.keepopen", 3) == 2
				call.Resp.PreSignals = s.Choose("cl.presig", 3)
				if call.Resp.PreSignals > 0 {
					p.Features["signals_from_step"] = true
				}
				if ns > 0 {
					p.Features["signals_to_step"] = true
				}
				if call.Resp.Kind == "workdone" && chance(s, "cl.postsig", 1, 5) {
					call.Resp.PostSignals = 1 + s.Choose("cl.npostsig", 2)
					p.Features["late_signals_from_step"] = true
				}
			}
			calls = append(calls, call)
		}
		p.Callers = append(p.Callers, calls)
	}
	return p
}

// ---------------------------------------------------------------- scripted server

type scriptedServer struct {
	plan    *ClientPlan
	c2s     *rt.Pipe
	s2c     *rt.Pipe
	wmu     simsync.Mutex
	byNonce map[string]*CCall
	got     struct {
		mu         sync.Mutex
		workStarts []string
		signals    int
		clientDone bool
		readErr    string
	}
}

var siteSrv = rt.H("harness.scriptServer")

func (ss *scriptedServer) write(b []byte) error {
	ss.wmu.Lock()
	defer ss.wmu.Unlock()
	_, err := ss.s2c.Write(b)
	return err
}

func (ss *scriptedServer) helloBytes() []byte {
	var sch any
	if ss.plan.BadSchema {
		sch = map[string]any{"steps": map[string]any{"s": map[string]any{"id": "s", "input": map[string]any{"root": "Missing", "objects": map[string]any{}}, "outputs": map[string]any{}}}}
	} else {
		p := BuildPlugin(ss.plan.Plugin, newRecorder(nil))
		ser, err := p.SelfSerialize()
		if err != nil {
			panic("scripted server cannot describe its plugin: " + err.Error())
		}
		sch = ser
	}
	return enc(map[string]any{"version": ss.plan.Version, "schema": sch})
}

func findNonce(config any) string {
	switch m := config.(type) {
	case map[any]any:
		if n, ok := m["nonce"].(string); ok {
			return n
		}
	case map[string]any:
		if n, ok := m["nonce"].(string); ok {
			return n
		}
	}
	return ""
}

func (ss *scriptedServer) answer(runID string, call *CCall, config any) []byte {
	var data any
	if call.Resp.HasData {
		wd := map[string]any{"step_id": call.Step, "output_id": call.Resp.OutputID, "output_data": call.Resp.Data, "debug_logs": ""}
		if ss.plan.Version == 1 {
			return enc(wd)
		}
		return runtimeMsg(atp.MessageTypeWorkDone, runID, wd)
	}
	switch call.Resp.OutputID {
	case "alt":
		data = map[string]any{"nonce": call.Nonce, "count": int64(7)}
	case "error":
		data = map[string]any{"error": "no: " + call.Nonce}
	default:
		data = config
	}
	wd := map[string]any{"step_id": call.Step, "output_id": call.Resp.OutputID, "output_data": data, "debug_logs": "line one\nline two"}
	if ss.plan.Version == 1 {
		return enc(wd)
	}
	return runtimeMsg(atp.MessageTypeWorkDone, runID, wd)
}

// run plays the transcript; it returns when its input ended and its answers were written.
func (ss *scriptedServer) run() {
	// when the scripted plugin "process" ends, both of its descriptors are closed
	defer ss.c2s.CloseRead()
	defer ss.s2c.CloseWrite()
	dec := cbor.NewDecoder(rt.ReadEnd{P: ss.c2s})
	var start any
	if err := dec.Decode(&start); err != nil {
		return
	}
	if err := ss.write(ss.helloBytes()); err != nil {
		return
	}
	if ss.plan.Version == 1 {
		planned, answered := 0, 0
		for _, cs := range ss.plan.Callers {
			planned += len(cs)
		}
		for {
			if ss.plan.ExitAfterLast && answered >= planned && planned > 0 {
				return
			}
			var ws refWorkStart
			if err := dec.Decode(&ws); err != nil {
				return
			}
			call := ss.byNonce[findNonce(ws.Config)]
			if call == nil {
				return
			}
			if call.Resp.DelayMs > 0 {
				time.Sleep(time.Duration(call.Resp.DelayMs) * time.Millisecond)
				rt.Yield(siteSrv)
			}
			if err := ss.write(ss.answer("", call, ws.Config)); err != nil {
				return
			}
			answered++
		}
	}
	var wg sync.WaitGroup
	defer func() {
		rt.Yield(siteSrv)
		wg.Wait()
		rt.Yield(siteSrv)
	}()
	for {
		var env refEnvelope
		if err := dec.Decode(&env); err != nil {
			ss.got.mu.Lock()
			ss.got.readErr = err.Error()
			ss.got.mu.Unlock()
			return
		}
		switch env.ID {
		case atp.MessageTypeWorkStart:
			var ws refWorkStart
			if err := cbor.Unmarshal(env.Data, &ws); err != nil {
				continue
			}
			call := ss.byNonce[findNonce(ws.Config)]
			runID := env.RunID
			ss.got.mu.Lock()
			ss.got.workStarts = append(ss.got.workStarts, runID)
			ss.got.mu.Unlock()
			if call == nil {
				continue
			}
			wg.Add(1)
			config := ws.Config
			rt.GoNamed("resp", func() {
				// the process does not wait for late signals (below) before it exits: only the answer is
				// something the plugin owes
				answered := false
				defer func() {
					if !answered {
						wg.Done()
					}
				}()
				if call.Resp.DelayMs > 0 {
					time.Sleep(time.Duration(call.Resp.DelayMs) * time.Millisecond)
				}
				rt.Yield(siteSrv)
				for i := 0; i < call.Resp.PreSignals; i++ {
					if ss.write(runtimeMsg(atp.MessageTypeSignal, runID, map[string]any{"signal_id": "note", "data": map[string]any{"k": int64(i)}})) != nil {
						return
					}
				}
				for i := 0; i < call.Resp.PreErrors; i++ {
					if ss.write(runtimeMsg(atp.MessageTypeError, runID, map[string]any{"error": "just saying", "step_fatal": false, "server_fatal": false})) != nil {
						return
					}
				}
				for i := 0; i < call.Resp.PreUnknown; i++ {
					if ss.write(runtimeMsg(77, runID, map[string]any{"x": 1})) != nil {
						return
					}
				}
				switch call.Resp.Kind {
				case "stepfatal":
					_ = ss.write(runtimeMsg(atp.MessageTypeError, runID, map[string]any{"error": "step failed", "step_fatal": true, "server_fatal": false}))
				case "serverfatal":
					_ = ss.write(runtimeMsg(atp.MessageTypeError, "", map[string]any{"error": "server is dying", "step_fatal": true, "server_fatal": true}))
					// a plugin that reported a server-fatal error is on its way out: the process ends and the
					// OS closes its descriptors (it does not keep answering other runs for ever into a pipe the
					// client has, by protocol, stopped reading)
					rt.Yield(siteSrv)
					ss.c2s.KillRead()
					ss.s2c.KillWrite()
				default:
					if ss.write(ss.answer(runID, call, config)) != nil {
						return
					}
					answered = true
					wg.Done()
					// a late forwarder: best effort, cut off when the process exits (nobody may be reading any more)
					for i := 0; i < call.Resp.PostSignals; i++ {
						rt.Yield(siteSrv)
						if ss.write(runtimeMsg(atp.MessageTypeSignal, runID, map[string]any{"signal_id": "note", "data": map[string]any{"k": int64(100 + i)}})) != nil {
							return
						}
					}
				}
			})
		case atp.MessageTypeSignal:
			ss.got.mu.Lock()
			ss.got.signals++
			ss.got.mu.Unlock()
		case atp.MessageTypeClientDone:
			ss.got.mu.Lock()
			ss.got.clientDone = true
			ss.got.mu.Unlock()
			return
		}
	}
}

// ---------------------------------------------------------------- run

// ClientObs is what a C08 run observed.
type ClientObs struct {
	Results    [][]CallResult
	SchemaErr  error
	Schema     *schema.SchemaSchema
	SchemaDone bool
	CloseErr   error
	CloseDone  bool
	C2S, S2C   *rt.Pipe
	Delivered  []byte
	junk       []byte
	Srv        *scriptedServer
}

func runClientPlan(t *testing.T, plan *ClientPlan, fault ClientFault, tape *rt.Tape, strat rt.Strategy, trace func(string)) (rt.Outcome, *ClientObs, *rt.Sim) {
	obs := &ClientObs{}
	var simRef *rt.Sim
	out := rt.Run(t, rt.Config{Tape: tape, Strategy: strat, MaxSteps: sessionMaxSteps(), Trace: trace, LocalSeams: rt.RaceBuild}, func(s *rt.Sim) {
		simRef = s
		obs.C2S = rt.NewPipe(plan.C2S)
		obs.S2C = rt.NewPipe(plan.S2C)
		switch fault.Kind {
		case "eof":
			obs.S2C.SetFault(rt.PipeFault{Kind: rt.FaultEOF, At: fault.At})
		case "ioerr":
			obs.S2C.SetFault(rt.PipeFault{Kind: rt.FaultIOErr, At: fault.At})
		case "stall":
			obs.S2C.SetFault(rt.PipeFault{Kind: rt.FaultStall, At: fault.At, StallFor: time.Duration(fault.StallMs) * time.Millisecond})
		case "flip":
			m := byte(fault.Mask)
			if m == 0 {
				m = 0x20
			}
			obs.S2C.SetFault(rt.PipeFault{Kind: rt.FaultFlip, At: fault.At, Mask: m})
		case "garbage":
			junk := make([]byte, 30)
			x := uint64(fault.JunkSeed)*2654435761 + 99991
			for i := range junk {
				x = x*6364136223846793005 + 1442695040888963407
				junk[i] = byte(x >> 33)
			}
			if fault.JunkSeed%3 == 0 {
				junk = []byte("panic: runtime error: index out of range\n\ngoroutine 1 [running]:\n")
			}
			obs.junk = junk
			obs.S2C.SetFault(rt.PipeFault{Kind: rt.FaultGarbage, At: fault.At, Junk: junk})
		}
		if fault.WriteAt >= 0 {
			obs.C2S.SetWriteFault(fault.WriteAt)
		}
		ss := &scriptedServer{plan: plan, c2s: obs.C2S, s2c: obs.S2C, byNonce: map[string]*CCall{}}
		for ci := range plan.Callers {
			for i := range plan.Callers[ci] {
				ss.byNonce[plan.Callers[ci][i].Nonce] = &plan.Callers[ci][i]
			}
		}
		obs.Srv = ss
		srvDone := make(chan struct{})
		rt.GoNamed("scriptserver", func() {
			defer close(srvDone)
			ss.run()
		})
		channel := rt.Duplex{In: obs.S2C, Out: obs.C2S}
		client := atp.NewClientWithLogger(channel, nil)
		sch, err := client.ReadSchema()
		obs.Schema, obs.SchemaErr, obs.SchemaDone = sch, err, true
		rt.Yield(siteAfterExec)
		obs.Results = make([][]CallResult, len(plan.Callers))
		var wg sync.WaitGroup
		var lateClose []chan schema.Input // only appended to by feeder goroutines, one scheduler step at a time
		if err == nil {
			for ci := range plan.Callers {
				calls := plan.Callers[ci]
				obs.Results[ci] = make([]CallResult, len(calls))
				results := obs.Results[ci]
				wg.Add(1)
				rt.GoNamed("caller", func() {
					defer wg.Done()
					for i := range calls {
						call := &calls[i]
						in := schema.Input{RunID: call.RunID, ID: call.Step, InputData: call.Input}
						if call.WithChans {
							toStep := make(chan schema.Input)
							fromStep := make(chan schema.Input)
							stop := make(chan struct{})
							var side sync.WaitGroup
							side.Add(2)
							keepOpen := call.KeepOpen
							rt.GoNamed("sigfeed", func() {
								defer side.Done()
								if keepOpen {
									// closed when the whole session is over
									defer func() { lateClose = append(lateClose, toStep) }()
								} else {
									defer close(toStep)
								}
								for _, sg := range call.Signals {
									rt.Yield(siteHarness)
									// (a scheduler-visible select: with both cases ready the runtime would pick at random)
									if rt.Select(siteSigSelect, rt.NewSend(toStep, schema.Input{RunID: call.RunID, ID: sg.ID, InputData: sg.Data}), rt.NewRecv(stop)) == 1 {
										return
									}
									rt.Yield(siteHarness)
								}
							})
							res := &results[i]
							rt.GoNamed("sigdrain", func() {
								defer side.Done()
								for {
									rt.Yield(siteDrain)
									cFrom := rt.NewRecv(fromStep)
									if rt.Select(siteSigSelect, cFrom, rt.NewRecv(stop)) == 1 || !cFrom.OK {
										// Execute returned (the client closed the channel, or the call was refused and it was never used)
										return
									}
									res.FromStep++
								}
							})
							results[i].Started = true
							r := client.Execute(in, toStep, fromStep)
							results[i].Returned++
							results[i].Res = r
							rt.Yield(siteAfterExec)
							close(stop)
							side.Wait()
							rt.Yield(siteHarness)
						} else {
							results[i].Started = true
							r := client.Execute(in, nil, nil)
							results[i].Returned++
							results[i].Res = r
							rt.Yield(siteAfterExec)
						}
					}
				})
			}
		}
		rt.Yield(siteWaitCallers)
		wg.Wait()
		rt.Yield(siteHarness)
		obs.CloseErr = client.Close()
		obs.CloseDone = true
		rt.Yield(siteHarness)
		for _, c := range lateClose {
			close(c)
		}
		// the engine drops the connection after Close
		_ = channel.Close()
		rt.Yield(siteWaitServer)
		<-srvDone
		rt.Yield(siteHarness)
	})
	if obs.S2C != nil {
		rec := obs.S2C.Record
		switch fault.Kind {
		case "eof", "ioerr", "stall":
			if int64(len(rec)) > fault.At {
				rec = rec[:fault.At]
			}
			obs.Delivered = append([]byte{}, rec...)
		case "garbage":
			if int64(len(rec)) >= fault.At {
				obs.Delivered = append(append([]byte{}, rec[:fault.At]...), obs.junk...)
			} else {
				obs.Delivered = append([]byte{}, rec...)
			}
		case "flip":
			obs.Delivered = append([]byte{}, rec...)
			if int64(len(obs.Delivered)) > fault.At {
				m := byte(fault.Mask)
				if m == 0 {
					m = 0x20
				}
				obs.Delivered[fault.At] ^= m
			}
		default:
			obs.Delivered = append([]byte{}, rec...)
		}
	}
	return out, obs, simRef
}

// ---------------------------------------------------------------- oracle

var strictDec = func() cbor.DecMode {
	m, err := cbor.DecOptions{ExtraReturnErrors: cbor.ExtraDecErrorUnknownField}.DecMode()
	if err != nil {
		panic(err)
	}
	return m
}()

type refHello struct {
	Version int64 `cbor:"version"`
	Schema  any   `cbor:"schema"`
}

type refWorkDone struct {
	StepID     string `cbor:"step_id"`
	OutputID   string `cbor:"output_id"`
	OutputData any    `cbor:"output_data"`
	DebugLogs  string `cbor:"debug_logs"`
}

type deliveredWD struct {
	OutputID string
	Data     any // normalised
}

// serverStreamModel is what a reference decoder makes of the (faulted) server stream.
type serverStreamModel struct {
	helloOK    bool
	version    int64
	schemaOK   bool
	workDone   map[string][]deliveredWD // v3: by run id
	workDoneV1 []deliveredWD            // v1: in order
	items      int
	// terminal[run] counts complete, well-formed envelopes that end a run (work-done or step-fatal error),
	// whether or not their payload decodes; serverFatal is set by a well-formed server-fatal error
	terminal    map[string]int
	serverFatal bool
	// how decoding of the delivered bytes ended: "eof" (all consumed), "truncated" (an item is incomplete:
	// a reader would wait for more bytes), "malformed" (a reader gets a decode error)
	ending   string
	badItems int // well-formed items that do not decode into the expected message type
}

func modelServerStream(b []byte) *serverStreamModel {
	m := &serverStreamModel{workDone: map[string][]deliveredWD{}, terminal: map[string]int{}, ending: "eof"}
	dec := cbor.NewDecoder(bytes.NewReader(b))
	// next consumes one item exactly as any CBOR stream decoder does - an item that is well-formed is
	// consumed whether or not its content fits what the reader wanted to decode it into - and then tries to
	// decode it strictly (unknown fields are errors, as in the client) into v. ok reports whether v is usable;
	// more is false when the stream ended, is truncated inside an item, or stopped being CBOR.
	next := func(v any) (ok bool, more bool) {
		var raw cbor.RawMessage
		if err := dec.Decode(&raw); err != nil {
			switch err {
			case io.EOF:
				m.ending = "eof"
			case io.ErrUnexpectedEOF:
				m.ending = "truncated"
			default:
				m.ending = "malformed"
			}
			return false, false
		}
		if err := strictDec.Unmarshal(raw, v); err != nil {
			m.badItems++
			return false, true
		}
		return true, true
	}
	var h refHello
	ok, more := next(&h)
	if !more || !ok {
		return m
	}
	m.helloOK = true
	m.version = h.Version
	func() {
		defer func() { _ = recover() }()
		if _, err := schema.UnserializeSchema(h.Schema); err == nil {
			m.schemaOK = true
		}
	}()
	if h.Version == 1 {
		for {
			var wd refWorkDone
			ok, more := next(&wd)
			if !more {
				return m
			}
			if !ok {
				// consumed, but not a usable result: it takes the place of one answer
				m.workDoneV1 = append(m.workDoneV1, deliveredWD{"\x00undecodable", nil})
				continue
			}
			n, _ := Norm(wd.OutputData)
			m.workDoneV1 = append(m.workDoneV1, deliveredWD{wd.OutputID, n})
			m.items++
		}
	}
	for {
		var env refEnvelope
		ok, more := next(&env)
		if !more {
			return m
		}
		if !ok {
			continue
		}
		m.items++
		if env.ID == atp.MessageTypeError {
			var em struct {
				StepFatal   bool `cbor:"step_fatal"`
				ServerFatal bool `cbor:"server_fatal"`
			}
			if err := cbor.Unmarshal(env.Data, &em); err == nil {
				if em.ServerFatal {
					m.serverFatal = true
				} else if em.StepFatal {
					m.terminal[env.RunID]++
				}
			}
		}
		if env.ID == atp.MessageTypeWorkDone {
			m.terminal[env.RunID]++
			// intact = the payload is a work-done message and nothing else (strict: a payload with the fields of an
			// error message under a work-done ID is not a result)
			var wd refWorkDone
			if err := strictDec.Unmarshal(env.Data, &wd); err == nil {
				n, _ := Norm(wd.OutputData)
				m.workDone[env.RunID] = append(m.workDone[env.RunID], deliveredWD{wd.OutputID, n})
			}
		}
	}
}

func supportedVersion(v int64) bool { return v == 1 || v == 3 }

// JudgeClient evaluates the C08 oracle (and, for healthy fault-free transcripts, the C06 one).
func JudgeClient(prop string, plan *ClientPlan, fault ClientFault, obs *ClientObs, out rt.Outcome) []Violation {
	var vs []Violation
	add := func(class, sig, detail string) { vs = append(vs, Violation{prop, class, sig, detail}) }
	for _, p := range out.Panics {
		if strings.Contains(p.Kind, "scriptserver") || len(p.Frames) == 0 {
			vs = append(vs, Violation{"HARNESS", "panic", panicSignature(p), p.Value})
		} else {
			add("panic", panicSignature(p), fmt.Sprintf("goroutine %s panicked: %s frames=%v", p.G, p.Value, p.Frames))
		}
	}
	if out.Deadlock {
		var det []string
		clientStuck := !obs.SchemaDone
		for _, b := range out.Blocked {
			det = append(det, fmt.Sprintf("%s in %s [%s]", b.Name, b.Func, b.Wait))
			if strings.HasPrefix(b.Func, "atp/client.go") {
				clientStuck = true
			}
		}
		if clientStuck && fault.Kind == "flip" {
			// One corrupted byte, after which the stream goes on and then stays open and silent. A caller that
			// is still blocked is only a violation when that is decidable: every delivered byte forms complete,
			// well-formed items (the client's decoder is in sync and idle) and a complete terminal envelope for
			// the caller's run - or a server-fatal error - is among them.
			model := modelServerStream(obs.Delivered)
			unjustified := ""
			if plan.Version != 1 && model.ending == "eof" {
				for ci, calls := range plan.Callers {
					for i := range calls {
						if ci < len(obs.Results) && i < len(obs.Results[ci]) && obs.Results[ci][i].Started && obs.Results[ci][i].Returned == 0 && (model.terminal[calls[i].RunID] > 0 || model.serverFatal) {
							unjustified = calls[i].RunID
						}
					}
				}
			}
			if unjustified == "" {
				return []Violation{{"EXCLUDED", "premise", "silent-stream-after-corruption", "a caller is blocked, but after the corrupted byte the stream neither ended nor delivered a complete terminal message for it (ending=" + model.ending + ")"}}
			}
			add("deadlock", blockedSignature(out.Blocked, "atp/client.go"), fmt.Sprintf("call %s is still blocked although a complete (garbled) terminal message for it was delivered and the decoder is in sync (reference decoder: %d items, terminal=%v, ending=%s): %s", unjustified, model.items, model.terminal, model.ending, strings.Join(det, "; ")))
		} else if clientStuck {
			add("deadlock", blockedSignature(out.Blocked, "atp/client.go"), "the stream has ended but the client is still blocked: "+strings.Join(det, "; "))
		} else {
			vs = append(vs, Violation{"HARNESS", "deadlock", blockedSignature(out.Blocked, "harness."), strings.Join(det, "; ")})
		}
	}
	if len(vs) > 0 {
		return vs
	}
	s2cFired := fault.Kind != "" && obs.S2C != nil && obs.S2C.FaultFired()
	writeFired := fault.WriteAt >= 0 && obs.C2S != nil && obs.C2S.WriteFaultFired()
	faultFree := !s2cFired && !writeFired
	model := modelServerStream(obs.Delivered)
	helloGood := model.helloOK && supportedVersion(model.version) && model.schemaOK
	if obs.SchemaErr == nil && !helloGood {
		add("fabricated", "readschema-succeeded-without-intact-hello", fmt.Sprintf("ReadSchema returned a schema but the delivered stream has helloOK=%v version=%d schemaOK=%v", model.helloOK, model.version, model.schemaOK))
		return vs
	}
	if obs.SchemaErr != nil {
		if faultFree && plan.Healthy {
			add("mismatch", "readschema-failed-on-healthy-stream", obs.SchemaErr.Error())
		}
		return vs
	}
	v1idx := 0
	for ci, calls := range plan.Callers {
		for i := range calls {
			call := &calls[i]
			got := obs.Results[ci][i]
			if got.Returned != 1 {
				add("lost", "execute-did-not-return-once", fmt.Sprintf("call %s returned %d times", call.RunID, got.Returned))
				continue
			}
			if got.Res.Error == nil {
				gn, _ := Norm(got.Res.OutputData)
				ok := false
				if plan.Version == 1 {
					if v1idx < len(model.workDoneV1) {
						w := model.workDoneV1[v1idx]
						ok = w.OutputID == got.Res.OutputID && reflect.DeepEqual(w.Data, gn)
					}
				} else {
					for _, w := range model.workDone[call.RunID] {
						if w.OutputID == got.Res.OutputID && reflect.DeepEqual(w.Data, gn) {
							ok = true
						}
					}
				}
				if !ok {
					add("fabricated", "success-without-intact-work-done", fmt.Sprintf("call %s returned output %q %s but no such work-done message for that run arrived intact (delivered for this run: %v; reference decoder: %d items, ending=%s, all=%v)", call.RunID, got.Res.OutputID, short(gn), model.workDone[call.RunID], model.items, model.ending, short(model.workDone)))
				}
			}
			if plan.Version == 1 {
				v1idx++
			}
			// strict part: healthy transcript, no fault
			if faultFree && plan.Healthy {
				switch call.Resp.Kind {
				case "workdone":
					if got.Res.Error != nil {
						add("mismatch", "healthy-call-failed", fmt.Sprintf("call %s: the peer answered with work-done but Execute returned error: %v", call.RunID, got.Res.Error))
					} else if got.Res.OutputID != call.Resp.OutputID {
						add("mismatch", "healthy-output-id", fmt.Sprintf("call %s: want %q got %q", call.RunID, call.Resp.OutputID, got.Res.OutputID))
					} else if call.Resp.HasData {
						wn, _ := Norm(call.Resp.Data)
						gn, _ := Norm(got.Res.OutputData)
						if !reflect.DeepEqual(wn, gn) {
							add("mismatch", "output-data", fmt.Sprintf("call %s over ATP v1: in-process result %s, Execute returned %s", call.RunID, short(wn), short(gn)))
						}
					}
					if call.WithChans && got.FromStep != call.Resp.PreSignals {
						add("mismatch", "signals-from-step-lost", fmt.Sprintf("call %s: the peer emitted %d signals before the result, the caller received %d", call.RunID, call.Resp.PreSignals, got.FromStep))
					}
				case "stepfatal":
					if got.Res.Error == nil {
						add("mismatch", "step-fatal-became-success", call.RunID)
					}
				}
			}
		}
	}
	if !obs.CloseDone {
		add("lost", "close-did-not-return", "")
	}
	return vs
}

// ---------------------------------------------------------------- engine

type clientEngine struct{ prop string }

func init() { engines["C08"] = clientEngine{"C08"} }

// ClientExtra is the batch-level parameter of crash batches.
type ClientExtra struct {
	EveryByte bool `json:"every_byte"`
	Stride    int  `json:"stride"`
}

func clientBasePlan(batch string, base uint64) *ClientPlan {
	wl := rt.NewTape(0xC08+uint64(len(batch)), base)
	return PlanClient(wl, clientOptsFor(batch))
}

// SubRuns enumerates the crash points of one base transcript: the base run is
// executed first (fault-free, same tape) to learn the server stream's length
// and message boundaries.
func (e clientEngine) SubRuns(t *testing.T, batch string, baseTape func() *rt.Tape, runIdx uint64, extra json.RawMessage) []json.RawMessage {
	if batch != "c08.crash" && batch != "c08.crashv1" {
		return nil
	}
	var ex ClientExtra
	_ = json.Unmarshal(extra, &ex)
	plan := clientBasePlan(batch, runIdx)
	if describable(plan.Plugin) != "" {
		return []json.RawMessage{mustJSON(ClientFault{Base: runIdx, WriteAt: -1})}
	}
	tape := baseTape()
	strat, _ := drawStrategy(tape)
	_, obs, _ := runClientPlan(t, plan, ClientFault{WriteAt: -1}, tape, strat, nil)
	if obs.S2C == nil {
		return []json.RawMessage{mustJSON(ClientFault{Base: runIdx, WriteAt: -1})}
	}
	L := int64(len(obs.S2C.Record))
	offs := map[int64]bool{}
	if ex.EveryByte {
		for k := int64(0); k <= L; k++ {
			offs[k] = true
		}
	} else {
		for _, e := range append([]int64{0}, obs.S2C.WriteEnds()...) {
			for _, d := range []int64{-1, 0, 1} {
				if k := e + d; k >= 0 && k <= L {
					offs[k] = true
				}
			}
		}
		st := int64(ex.Stride)
		if st <= 0 {
			st = 64
		}
		for k := int64(runIdx) % st; k <= L; k += st {
			offs[k] = true
		}
	}
	var ks []int64
	for k := range offs {
		ks = append(ks, k)
	}
	sort.Slice(ks, func(i, j int) bool { return ks[i] < ks[j] })
	out := []json.RawMessage{mustJSON(ClientFault{Base: runIdx, WriteAt: -1})}
	clientLen := int64(len(obs.C2S.Record))
	for _, k := range ks {
		for _, kind := range []string{"eof", "ioerr", "garbage", "stall", "flip"} {
			f := ClientFault{Base: runIdx, Kind: kind, At: k, JunkSeed: int(k) + int(runIdx), WriteAt: -1}
			if kind == "flip" {
				f.Mask = []int{0x20, 0x01, 0x80, 0x40}[k%4]
			}
			if kind == "stall" {
				f.StallMs = []int{100, 6000}[k%2]
			}
			// the write side fails independently in a fraction of the points
			if kind != "flip" && clientLen > 0 && (k+int64(len(kind)))%7 == 0 {
				f.WriteAt = (k * 31) % (clientLen + 1)
			}
			out = append(out, mustJSON(f))
		}
	}
	// message-type confusion: one flipped byte that turns the message ID of a v3 runtime message into another valid
	// message ID (an error into a work-done, a signal into an error ...); the envelope stays well-formed
	if batch == "c08.crash" {
		rec := obs.S2C.Record
		starts := append([]int64{0}, obs.S2C.WriteEnds()...)
		for _, b := range starts {
			// canonical CBOR: a3 62 'i' 'd' <id> 64 'd' 'a' 't' 'a' ...
			if b+5 <= L && rec[b] == 0xa3 && rec[b+1] == 0x62 && rec[b+2] == 'i' && rec[b+3] == 'd' && rec[b+4] >= 1 && rec[b+4] <= 6 {
				cur := int(rec[b+4])
				for id := 1; id <= 6; id++ {
					if id != cur {
						out = append(out, mustJSON(ClientFault{Base: runIdx, Kind: "flip", At: b + 4, Mask: cur ^ id, WriteAt: -1}))
					}
				}
			}
		}
	}
	return out
}

func mustJSON(v any) json.RawMessage {
	b, err := json.Marshal(v)
	if err != nil {
		panic(err)
	}
	return b
}

func (e clientEngine) Run(t *testing.T, batch string, tape *rt.Tape, runIdx uint64, extra json.RawMessage, trace func(string)) RunRecord {
	var plan *ClientPlan
	fault := ClientFault{WriteAt: -1}
	if batch == "c08.crash" || batch == "c08.crashv1" {
		if err := json.Unmarshal(extra, &fault); err != nil {
			return RunRecord{Outcome: "infra", Reason: "bad fault extra: " + err.Error()}
		}
		plan = clientBasePlan(batch, fault.Base)
	} else {
		plan = PlanClient(tape, clientOptsFor(batch))
		if strings.HasPrefix(batch, "c08.") {
			// a random fault, most of the time: the stream length is not known in advance, so draw
			// from a range that covers typical transcripts (hello is a few KiB)
			switch tape.Choose("cl.fault", 7) {
			case 5:
				fault.Kind = "flip"
				fault.Mask = []int{0x20, 0x01, 0x80, 0x40}[tape.Choose("cl.mask", 4)]
			case 1:
				fault.Kind = "eof"
			case 2:
				fault.Kind = "ioerr"
			case 3:
				fault.Kind = "garbage"
				fault.JunkSeed = tape.Choose("cl.junkseed", 1000)
			case 4:
				fault.Kind = "stall"
				fault.StallMs = []int{100, 4000, 6000, 70000}[tape.Choose("cl.stallms", 4)]
			}
			if fault.Kind != "" {
				if tape.Choose("cl.faultzone", 3) == 0 {
					fault.At = int64(tape.Choose("cl.faultat.hello", 3000))
				} else {
					fault.At = int64(2000 + tape.Choose("cl.faultat", 9000))
				}
			}
			if fault.Kind != "flip" && tape.Choose("cl.wfault", 5) == 4 {
				fault.WriteAt = int64(tape.Choose("cl.wfaultat", 600))
			}
		}
	}
	return e.runOne(t, batch, plan, fault, tape, trace)
}

func (e clientEngine) runOne(t *testing.T, batch string, plan *ClientPlan, fault ClientFault, tape *rt.Tape, trace func(string)) RunRecord {
	rec := RunRecord{Faults: map[string]int{}}
	if why := describable(plan.Plugin); why != "" {
		rec.Outcome = "excluded"
		rec.Reason = "recipe not self-describable: " + why
		return rec
	}
	strat, stratName := drawStrategy(tape)
	if fault.Kind == "probe" {
		fault.Kind = ""
	}
	out, obs, simRef := runClientPlan(t, plan, fault, tape, strat, trace)
	rec.Steps, rec.Switches, rec.Preempt = out.Steps, out.Switches, out.Preemptions
	rec.FakeMs = out.FakeElapsed.Milliseconds()
	rec.SchedSig = fmt.Sprintf("%016x", out.SchedSig)
	rec.LogHash = fmt.Sprintf("%016x", out.LogHash)
	rec.Strategy = stratName
	rec.Features = sortedFeatureList(plan.Features)
	fired := false
	if obs.S2C != nil && fault.Kind != "" {
		fired = obs.S2C.FaultFired()
		if fired {
			rec.Faults[fault.Kind]++
		}
		rec.Features = append(rec.Features, "fault:"+fault.Kind)
		rec.SchedSig += fmt.Sprintf("/%s@%d", fault.Kind, fault.At)
	}
	if obs.C2S != nil && fault.WriteAt >= 0 {
		if obs.C2S.WriteFaultFired() {
			rec.Faults["write-ioerr"]++
			fired = true
		}
		rec.SchedSig += fmt.Sprintf("/w@%d", fault.WriteAt)
	}
	rec.Nontrivial = out.Preemptions > 0 || fired
	if simRef != nil {
		rec.Probes = simRef.Probes
		for s := range simRef.SitesSeen {
			if s >= 0 && s < len(rt.SiteYield) {
				rec.Sites = append(rec.Sites, s)
			}
		}
		sort.Ints(rec.Sites)
		for h := range simRef.PairsSeen {
			rec.PairHashes = append(rec.PairHashes, h)
		}
		sort.Slice(rec.PairHashes, func(i, j int) bool { return rec.PairHashes[i] < rec.PairHashes[j] })
	}
	if obs.C2S != nil {
		if n := obs.C2S.FragmentReads + obs.S2C.FragmentReads; n > 0 {
			rec.Faults["frag"] = n
		}
		if n := obs.C2S.Coalesced + obs.S2C.Coalesced; n > 0 {
			rec.Faults["coalesce"] = n
		}
		if n := obs.C2S.EOFsWithData + obs.S2C.EOFsWithData; n > 0 {
			rec.Faults["eof-with-data"] = n
		}
	}
	var wl []string
	for ci, cs := range plan.Callers {
		for _, c := range cs {
			wl = append(wl, fmt.Sprintf("caller%d: Execute(%s,%s) peer answers %s/%s pre(err=%d,sig=%d,unk=%d) delay=%dms signals_to_step=%d", ci, c.RunID, c.Step, c.Resp.Kind, c.Resp.OutputID, c.Resp.PreErrors, c.Resp.PreSignals, c.Resp.PreUnknown, c.Resp.DelayMs, len(c.Signals)))
		}
	}
	streamLen := 0
	if obs.S2C != nil {
		streamLen = len(obs.S2C.Record)
	}
	rec.Sample = map[string]any{"atp_version": plan.Version, "bad_schema": plan.BadSchema, "workload": wl, "fault": fault, "server_stream_len": streamLen, "strategy": stratName, "steps": out.Steps,
		"s2c": fmt.Sprintf("cap=%d readmax=%v writemax=%v", plan.S2C.Cap, plan.S2C.ReadMax, plan.S2C.WriteMax)}
	if out.Budget {
		rec.Outcome = "infra"
		rec.Reason = fmt.Sprintf("step budget exceeded (%d steps)", out.Steps)
		return rec
	}
	if out.BubblePanic != "" && !out.Deadlock {
		rec.Outcome = "infra"
		rec.Reason = "bubble panic: " + trunc(out.BubblePanic, 3000)
		return rec
	}
	if fault.WriteAt >= 0 && obs.C2S != nil && obs.C2S.WriteFaultFired() && !(fault.Kind != "" && obs.S2C.FaultFired()) {
		// the property's premise is a server stream that ends, errors or garbles; a write side that
		// fails while the server stream stays intact and silent is outside it
		rec.Outcome = "excluded"
		rec.Reason = "premise not met: client writes failed but the server stream never ended or garbled"
		return rec
	}
	closeGaveUp := false
	for _, p := range out.Panics {
		if strings.Contains(p.Value, "potential deadlock after client") {
			closeGaveUp = true
		}
	}
	if fault.Kind == "stall" && fault.StallMs >= 5000 && (closeGaveUp || (fault.WriteAt >= 0 && obs.C2S != nil && obs.C2S.WriteFaultFired())) {
		// Close gives up waiting for its read loop 5 s after a failed client-done write; a server stream that is
		// still silent (not yet ended) at that moment is outside the premise
		rec.Outcome = "excluded"
		rec.Reason = "premise not met: client writes failed while the server stream was stalled for longer than Close waits"
		return rec
	}
	rec.Violations = JudgeClient(e.prop, plan, fault, obs, out)
	if len(rec.Violations) == 1 && rec.Violations[0].Property == "EXCLUDED" {
		rec.Outcome = "excluded"
		rec.Reason = "premise not met: " + rec.Violations[0].Detail
		rec.Violations = nil
		return rec
	}
	if len(rec.Violations) > 0 {
		rec.Outcome = "violation"
	} else {
		rec.Outcome = "ok"
	}
	return rec
}

var _ = io.EOF
