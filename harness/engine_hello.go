package harness

import (
	"context"
	"encoding/json"
	"fmt"
	"runtime/debug"
	"sort"
	"strings"
	"testing"

	"go.flow.arcalot.io/pluginsdk/atp"
	"go.flow.arcalot.io/pluginsdk/schema"
	rt "go.flow.arcalot.io/pluginsdk/zzsimrt"
)

// ---------------------------------------------------------------- description mutations

// node addresses one value inside a decoded description tree.
type node struct {
	parentMap  map[any]any
	parentList []any
	key        any
	idx        int
	path       string
}

func (n *node) get() any {
	if n.parentMap != nil {
		return n.parentMap[n.key]
	}
	return n.parentList[n.idx]
}

func (n *node) set(v any) {
	if n.parentMap != nil {
		n.parentMap[n.key] = v
	} else {
		n.parentList[n.idx] = v
	}
}

func sortedAnyKeys(m map[any]any) []any {
	ks := make([]any, 0, len(m))
	for k := range m {
		ks = append(ks, k)
	}
	sort.Slice(ks, func(i, j int) bool { return fmt.Sprintf("%T%v", ks[i], ks[i]) < fmt.Sprintf("%T%v", ks[j], ks[j]) })
	return ks
}

// collectNodes lists every value of the tree in a deterministic order.
func collectNodes(root any, path string, out *[]*node) {
	switch v := root.(type) {
	case map[any]any:
		for _, k := range sortedAnyKeys(v) {
			p := fmt.Sprintf("%s/%v", path, k)
			*out = append(*out, &node{parentMap: v, key: k, path: p})
			collectNodes(v[k], p, out)
		}
	case []any:
		for i := range v {
			p := fmt.Sprintf("%s[%d]", path, i)
			*out = append(*out, &node{parentList: v, idx: i, path: p})
			collectNodes(v[i], p, out)
		}
	}
}

func deepCopyAny(v any) any {
	switch x := v.(type) {
	case map[any]any:
		m := make(map[any]any, len(x))
		for k, e := range x {
			m[k] = deepCopyAny(e)
		}
		return m
	case []any:
		l := make([]any, len(x))
		for i, e := range x {
			l[i] = deepCopyAny(e)
		}
		return l
	}
	return v
}

var mutationKinds = []string{"delete", "retype", "rename", "duplicate", "repoint", "nil", "extreme", "rekey", "swaptype", "renamespace"}

// applyMutation mutates node i of the tree with the given kind; variant selects among alternatives.
func applyMutation(tree any, nodeIdx int, kind string, variant int) (desc string, ok bool) {
	var nodes []*node
	collectNodes(tree, "", &nodes)
	if len(nodes) == 0 {
		return "", false
	}
	n := nodes[nodeIdx%len(nodes)]
	if kind == "renamespace" {
		// a reference (anywhere: top-level objects, nested scopes, in-place one-of members) pointing into a namespace
		// nobody applies
		var nsNodes []*node
		for _, c := range nodes {
			if k, ok := c.key.(string); ok && k == "namespace" && c.parentMap != nil {
				if _, isStr := c.get().(string); isStr {
					nsNodes = append(nsNodes, c)
				}
			}
		}
		if len(nsNodes) == 0 {
			return "", false
		}
		n = nsNodes[nodeIdx%len(nsNodes)]
		n.set([]string{"other", "$.steps", " "}[variant%3])
		return fmt.Sprintf("%s@%s", kind, n.path), true
	}
	if kind == "swaptype" {
		// type confusion: a complete, well-formed description of ANOTHER type where some type stands (a list as map
		// key, an object where an item type is expected ...); applies to type nodes only
		var typeNodes []*node
		for _, c := range nodes {
			if m, ok := c.get().(map[any]any); ok {
				if _, has := m["type_id"]; has {
					typeNodes = append(typeNodes, c)
				}
			}
		}
		if len(typeNodes) == 0 {
			return "", false
		}
		n = typeNodes[nodeIdx%len(typeNodes)]
		str := map[any]any{"type_id": "string"}
		palette := []any{
			map[any]any{"type_id": "list", "items": deepCopyAny(str)},
			map[any]any{"type_id": "map", "keys": deepCopyAny(str), "values": map[any]any{"type_id": "integer"}},
			map[any]any{"type_id": "bool"},
			map[any]any{"type_id": "float"},
			map[any]any{"type_id": "any"},
			map[any]any{"type_id": "pattern"},
			map[any]any{"type_id": "ref", "id": "NoSuchObject"},
			map[any]any{"type_id": "object", "id": "Inline", "properties": map[any]any{"p": map[any]any{"type": deepCopyAny(str)}}},
			map[any]any{"type_id": "scope", "root": "In", "objects": map[any]any{"In": map[any]any{"id": "In", "properties": map[any]any{}}}},
			map[any]any{"type_id": "enum_string", "values": map[any]any{"a": map[any]any{}}},
			map[any]any{"type_id": "enum_integer", "values": map[any]any{int64(1): map[any]any{}}},
			map[any]any{"type_id": "one_of_string", "discriminator_field_name": "_type", "types": map[any]any{}},
			map[any]any{"type_id": "integer", "min": int64(5), "max": int64(1)},
			map[any]any{"type_id": "string", "min": int64(9), "max": int64(2)},
		}
		n.set(deepCopyAny(palette[variant%len(palette)]))
		return fmt.Sprintf("%s@%s", kind, n.path), true
	}
	cur := n.get()
	switch kind {
	case "delete":
		if n.parentMap == nil {
			return "", false
		}
		delete(n.parentMap, n.key)
	case "retype":
		palette := []any{"a string", int64(42), uint64(7), 3.5, true, []any{}, []any{"x"}, map[any]any{}, map[any]any{"type_id": "string"}, map[any]any{int64(1): "one"}, []byte("bytes")}
		nv := palette[variant%len(palette)]
		if fmt.Sprintf("%T", nv) == fmt.Sprintf("%T", cur) {
			nv = palette[(variant+1)%len(palette)]
		}
		n.set(nv)
	case "rename":
		if n.parentMap == nil {
			return "", false
		}
		delete(n.parentMap, n.key)
		n.parentMap[fmt.Sprintf("%v_renamed", n.key)] = cur
	case "rekey":
		// rename within the key's own type: integer keys (unit multipliers, int one-of members, enum values)
		// become negative, string keys empty / changed in case
		if n.parentMap == nil {
			return "", false
		}
		var nk any
		switch k := n.key.(type) {
		case uint64:
			nk = -int64(k)
			if k == 0 {
				nk = int64(-1)
			}
		case int64:
			nk = -k
			if k == 0 {
				nk = int64(-1)
			}
		case string:
			nk = []string{"", strings.ToUpper(k), k + " "}[variant%3]
		default:
			return "", false
		}
		if _, taken := n.parentMap[nk]; taken {
			return "", false
		}
		delete(n.parentMap, n.key)
		n.parentMap[nk] = cur
	case "duplicate":
		if n.parentMap == nil {
			n.parentList[n.idx] = deepCopyAny(nodes[(nodeIdx*7+variant)%len(nodes)].get())
		} else {
			other := nodes[(nodeIdx*7+variant+1)%len(nodes)]
			n.parentMap[n.key] = deepCopyAny(other.get())
		}
	case "repoint":
		s, isStr := cur.(string)
		if !isStr {
			return "", false
		}
		alts := []string{"NoSuchObject", "", s + "x", "root", "(unclosed", "{not json", "[1,", "_type", strings.Repeat("z", 300),
			// texts that are awkward as JSON-encoded default values: quotes, backslashes, control characters,
			// well-formed numbers no float64 can hold
			`say "hi"`, `"`, `C:\dir`, `a\`, "line1\nline2", "\x01", "1e400", "-1e999", `"unterminated`, "null", "[]"}
		n.set(alts[variant%len(alts)])
	case "nil":
		n.set(nil)
	case "extreme":
		switch cur.(type) {
		case uint64, int64:
			n.set([]any{int64(-1), uint64(1<<63 + 5), int64(-1 << 62), uint64(0)}[variant%4])
		case bool:
			n.set(!cur.(bool))
		case float64:
			n.set(-1e300)
		default:
			return "", false
		}
	}
	return fmt.Sprintf("%s@%s", kind, n.path), true
}

// randomTree draws a grammar-free CBOR-like tree.
func randomTree(s Src, depth int) any {
	k := s.Choose("rt.kind", 9)
	if depth > 3 && k >= 6 {
		k = s.Choose("rt.leaf", 6)
	}
	switch k {
	case 0:
		return int64(s.Choose("rt.int", 100)) - 50
	case 1:
		return []string{"steps", "input", "objects", "root", "string", "integer", "ref", "id", "x"}[s.Choose("rt.str", 9)]
	case 2:
		return s.Choose("rt.bool", 2) == 1
	case 3:
		return nil
	case 4:
		return 1.5
	case 5:
		return uint64(s.Choose("rt.uint", 1000))
	case 6, 7:
		n := s.Choose("rt.maplen", 4)
		m := map[any]any{}
		for i := 0; i < n; i++ {
			var key any = []string{"steps", "input", "outputs", "objects", "root", "properties", "type", "type_id", "id", "schema", "items", "keys", "values", "types", "signal_handlers", "default"}[s.Choose("rt.key", 16)]
			if s.Choose("rt.intkey", 8) == 7 {
				key = int64(i)
			}
			m[key] = randomTree(s, depth+1)
		}
		return m
	default:
		n := s.Choose("rt.listlen", 3)
		l := make([]any, n)
		for i := range l {
			l[i] = randomTree(s, depth+1)
		}
		return l
	}
}

// ---------------------------------------------------------------- plan

// HelloPlan is the pre-drawn part of a C10 run.
type HelloPlan struct {
	Plugin    *PluginRecipe `json:"plugin"`
	Mutations []string      `json:"mutations"`
	Random    bool          `json:"random_tree,omitempty"`
	Schema    any           `json:"-"`
	S2C       rt.PipeConfig `json:"s2c"`
	C2S       rt.PipeConfig `json:"c2s"`
	Values    []any         `json:"-"`
}

// HelloMutation selects one mutation of a sweep.
type HelloMutation struct {
	Base    uint64 `json:"base"`
	Node    int    `json:"node"`
	Kind    string `json:"kind"`
	Variant int    `json:"variant"`
	None    bool   `json:"none,omitempty"`
}

func helloBaseRecipe(base uint64) *PluginRecipe {
	wl := rt.NewTape(0xC10, base)
	return GenPlugin(wl, true)
}

func describePlugin(pr *PluginRecipe) (any, error) {
	p := BuildPlugin(pr, newRecorder(nil))
	ser, err := p.SelfSerialize()
	if err != nil {
		return nil, err
	}
	return Norm(ser)
}

func exerciseValues(s Src, pr *PluginRecipe) []any {
	var vals []any
	for i := range pr.Steps {
		st := &pr.Steps[i]
		for k := 0; k < 2; k++ {
			vg := &ValGen{S: s, Scope: &st.Input, Corrupt: k == 1}
			vals = append(vals, vg.Object(st.Input.Root, map[string]any{"nonce": "n"}))
		}
	}
	vals = append(vals, nil, "", "str", int64(0), int64(-1), uint64(1<<63+1), 1.5, true, []any{}, []any{nil}, map[string]any{}, map[any]any{int64(1): "x"},
		map[string]any{"nonce": "n", "_type": "m0", "kind": int64(1)}, []any{map[string]any{"nonce": 1}}, map[string]any{"k": int64(5)}, map[string]any{"error": "e"})
	return vals
}

// ---------------------------------------------------------------- exercise

type opPanic struct {
	Op     string
	Value  string
	Frames []string
}

func guarded(op string, panics *[]opPanic, f func()) {
	defer func() {
		if r := recover(); r != nil {
			*panics = append(*panics, opPanic{Op: op, Value: fmt.Sprint(r), Frames: rt.SUTFrames(string(debug.Stack()))})
		}
	}()
	f()
}

func exerciseType(name string, t schema.Type, vals []any, panics *[]opPanic, ops *int) {
	if t == nil {
		return
	}
	for _, v := range vals {
		v := v
		*ops += 3
		var un any
		var uerr error
		guarded(name+".Unserialize", panics, func() { un, uerr = t.Unserialize(v) })
		guarded(name+".Validate", panics, func() { _ = t.Validate(v) })
		guarded(name+".ValidateCompatibility(data)", panics, func() { _ = t.ValidateCompatibility(v) })
		if uerr == nil {
			*ops += 2
			guarded(name+".Validate(unserialized)", panics, func() { _ = t.Validate(un) })
			guarded(name+".Serialize(unserialized)", panics, func() { _, _ = t.Serialize(un) })
		}
	}
	*ops++
	guarded(name+".ValidateCompatibility(self)", panics, func() { _ = t.ValidateCompatibility(t) })
}

// exerciseSchema uses a received schema the way an engine would, on first use.
func exerciseSchema(sch *schema.SchemaSchema, vals []any) (panics []opPanic, ops int) {
	guarded("SelfSerialize", &panics, func() { _, _ = sch.SelfSerialize() })
	ops++
	var stepIDs []string
	guarded("Steps", &panics, func() {
		for id := range sch.Steps() {
			stepIDs = append(stepIDs, id)
		}
	})
	sort.Strings(stepIDs)
	for _, id := range stepIDs {
		var st schema.Step
		guarded("Steps[]", &panics, func() { st = sch.Steps()[id] })
		if st == nil {
			continue
		}
		var in schema.Scope
		guarded("Input", &panics, func() { in = st.Input() })
		if in != nil {
			exerciseType("step.Input", in, vals, &panics, &ops)
			guarded("Input.SelfSerialize", &panics, func() { _, _ = in.SelfSerialize() })
		}
		var outs map[string]*schema.StepOutputSchema
		guarded("Outputs", &panics, func() { outs = st.Outputs() })
		for _, oid := range sortedKeys(outs) {
			o := outs[oid]
			if o == nil {
				continue
			}
			var os schema.Scope
			guarded("Output.Schema", &panics, func() { os = o.Schema() })
			if os != nil {
				exerciseType("step.Output", os, vals, &panics, &ops)
			}
		}
		var sh, se map[string]*schema.SignalSchema
		guarded("SignalHandlers", &panics, func() { sh = st.SignalHandlers() })
		guarded("SignalEmitters", &panics, func() { se = st.SignalEmitters() })
		for _, m := range []map[string]*schema.SignalSchema{sh, se} {
			for _, sid := range sortedKeys(m) {
				sg := m[sid]
				if sg == nil {
					continue
				}
				var ds schema.Scope
				guarded("Signal.DataSchema", &panics, func() { ds = sg.DataSchema() })
				if ds != nil {
					exerciseType("signal.DataSchema", ds, vals, &panics, &ops)
				}
			}
		}
	}
	return panics, ops
}

// ---------------------------------------------------------------- engine

type helloEngine struct{}

func init() { engines["C10"] = helloEngine{} }

// SubRuns: every node of the base description x every mutation kind.
func (helloEngine) SubRuns(t *testing.T, batch string, baseTape func() *rt.Tape, runIdx uint64, extra json.RawMessage) []json.RawMessage {
	if batch != "c10.sweep" {
		return nil
	}
	var ex struct {
		Stride int `json:"stride"`
	}
	_ = json.Unmarshal(extra, &ex)
	if ex.Stride <= 0 {
		ex.Stride = 1
	}
	pr := helloBaseRecipe(runIdx)
	desc, err := describePlugin(pr)
	if err != nil {
		return []json.RawMessage{mustJSON(HelloMutation{Base: runIdx, None: true})}
	}
	var nodes []*node
	collectNodes(desc, "", &nodes)
	out := []json.RawMessage{mustJSON(HelloMutation{Base: runIdx, None: true})}
	for i := int(runIdx) % ex.Stride; i < len(nodes); i += ex.Stride {
		for ki, k := range mutationKinds {
			out = append(out, mustJSON(HelloMutation{Base: runIdx, Node: i, Kind: k, Variant: i + ki}))
		}
	}
	return out
}

// scopeRun is batch c10.scope: a scope description handed to schema.UnserializeScope directly. A scope comes back
// unlinked by design; loading it means UnserializeScope + ApplySelf + ValidateReferences, and that sequence must
// either report an error or yield a scope every operation on which is total.
func scopeRun(tape *rt.Tape, runIdx uint64) RunRecord {
	rec := RunRecord{Faults: map[string]int{}, Probes: map[string]int{}}
	recipe := GenScope(tape, GenOpts{MaxObjects: 3, MaxProps: 4, MaxDepth: 2, Prefix: "Q"})
	var orig *schema.ScopeSchema
	func() {
		defer func() { _ = recover() }()
		orig = BuildScope(recipe)
	}()
	if orig == nil {
		return RunRecord{Outcome: "excluded", Reason: "recipe cannot be built"}
	}
	d0, err := selfDesc(orig)
	if err != nil {
		return RunRecord{Outcome: "excluded", Reason: "recipe not self-describable: " + trunc(err.Error(), 100)}
	}
	desc, err := Norm(d0)
	if err != nil {
		return RunRecord{Outcome: "excluded", Reason: "description not normalisable"}
	}
	var muts []string
	if tape.Choose("sc.random", 10) == 9 {
		desc = randomTree(tape, 0)
		muts = append(muts, "random-tree")
	} else {
		var nodes []*node
		collectNodes(desc, "", &nodes)
		nm := tape.Choose("hm.count", 3) // 0 = unmutated: the honest description must load and work
		for i := 0; i < nm && len(nodes) > 0; i++ {
			d, ok := applyMutation(desc, tape.Choose("hm.node", len(nodes)), mutationKinds[tape.Choose("hm.kind", len(mutationKinds))], tape.Choose("hm.variant", 16))
			if ok {
				muts = append(muts, d)
			}
		}
	}
	var vals []any
	for k := 0; k < 3; k++ {
		vg := &ValGen{S: rt.NewTape(0xE5, runIdx*4+uint64(k)), Scope: recipe, Corrupt: k == 2}
		vals = append(vals, vg.Object(recipe.Root, nil))
	}
	vals = append(vals, nil, "", "str", int64(0), int64(-1), 1.5, true, []any{}, []any{nil}, map[string]any{}, map[any]any{int64(1): "x"})
	var panics []opPanic
	ops := 0
	var sc *schema.ScopeSchema
	var loadErr error
	guarded("UnserializeScope", &panics, func() { sc, loadErr = schema.UnserializeScope(desc) })
	if sc != nil && loadErr == nil && len(panics) == 0 {
		guarded("ApplySelf", &panics, func() { sc.ApplySelf() })
		if len(panics) == 0 {
			guarded("ValidateReferences", &panics, func() { loadErr = sc.ValidateReferences() })
		}
	}
	accepted := sc != nil && loadErr == nil && len(panics) == 0
	if accepted {
		exerciseType("scope", sc, vals, &panics, &ops)
		guarded("scope.SelfSerialize", &panics, func() { _, _ = sc.SelfSerialize() })
		if len(muts) == 0 && len(panics) == 0 {
			// an honest description: the loaded scope must also agree with the original on the generated inputs
			for _, v := range vals[:3] {
				_, e1 := orig.Unserialize(v)
				_, e2 := sc.Unserialize(v)
				if (e1 == nil) != (e2 == nil) {
					rec.Violations = append(rec.Violations, Violation{"C10", "mismatch", "honest-scope-description-loads-differently", fmt.Sprintf("input %s: original says %v, the scope loaded from its own description says %v", short(v), e1, e2)})
					break
				}
			}
		}
	} else if len(muts) == 0 && len(panics) == 0 {
		rec.Violations = append(rec.Violations, Violation{"C10", "mismatch", "honest-scope-description-rejected", fmt.Sprintf("the unmutated self-description was rejected: %v", loadErr)})
	}
	rec.SchedSig = fmt.Sprintf("%x/%s", fnvString(fmt.Sprint(desc)), strings.Join(muts, "+"))
	rec.LogHash = rec.SchedSig
	rec.Nontrivial = len(muts) > 0
	if len(muts) > 0 {
		rec.Faults["scope-mutation"] = len(muts)
	}
	rec.Features = []string{"c10.scope"}
	if accepted {
		rec.Features = append(rec.Features, "accepted")
		rec.Probes["mutated_scope_accepted"] = 1
	} else {
		rec.Features = append(rec.Features, "rejected")
		rec.Probes["mutated_scope_rejected"] = 1
	}
	rec.Probes["ops_on_accepted_schema"] = ops
	errText := ""
	if loadErr != nil {
		errText = trunc(loadErr.Error(), 200)
	}
	rec.Steps = ops
	rec.Sample = map[string]any{"mutations": muts, "accepted": accepted, "load_error": errText, "operations_exercised": ops}
	seen := map[string]bool{}
	for _, p := range panics {
		fr := ""
		if len(p.Frames) > 0 {
			fr = p.Frames[0]
		}
		cls := "use"
		if p.Op == "UnserializeScope" || p.Op == "ApplySelf" || p.Op == "ValidateReferences" {
			cls = "load(" + p.Op + ")"
		}
		sig := "scope " + cls + ": " + stripVolatile(p.Value) + " @ " + fr
		if seen[sig] {
			continue
		}
		seen[sig] = true
		rec.Violations = append(rec.Violations, Violation{"C10", "panic", sig, fmt.Sprintf("%s panicked on a scope description given to UnserializeScope (mutations %v): %s frames=%v", p.Op, muts, p.Value, p.Frames)})
	}
	if len(rec.Violations) > 0 {
		rec.Outcome = "violation"
	} else {
		rec.Outcome = "ok"
	}
	return rec
}

func (helloEngine) Run(t *testing.T, batch string, tape *rt.Tape, runIdx uint64, extra json.RawMessage, trace func(string)) RunRecord {
	if batch == "c10.scope" {
		return scopeRun(tape, runIdx)
	}
	rec := RunRecord{Faults: map[string]int{}}
	var pr *PluginRecipe
	var muts []string
	var desc any
	var err error
	if batch == "c10.sweep" {
		var hm HelloMutation
		if e := json.Unmarshal(extra, &hm); e != nil {
			return RunRecord{Outcome: "infra", Reason: "bad extra: " + e.Error()}
		}
		pr = helloBaseRecipe(hm.Base)
		desc, err = describePlugin(pr)
		if err != nil {
			rec.Outcome = "excluded"
			rec.Reason = "recipe not self-describable: " + err.Error()
			return rec
		}
		if !hm.None {
			d, ok := applyMutation(desc, hm.Node, hm.Kind, hm.Variant)
			if !ok {
				rec.Outcome = "excluded"
				rec.Reason = "mutation not applicable at this node"
				return rec
			}
			muts = append(muts, d)
		}
	} else {
		pr = GenPlugin(tape, true)
		desc, err = describePlugin(pr)
		if err != nil {
			rec.Outcome = "excluded"
			rec.Reason = "recipe not self-describable: " + err.Error()
			return rec
		}
		switch batch {
		case "c10.random":
			desc = randomTree(tape, 0)
			if tape.Choose("rt.wrap", 2) == 1 {
				desc = map[any]any{"steps": map[any]any{"s": randomTree(tape, 1)}}
			}
			muts = append(muts, "random-tree")
		default:
			var nodes []*node
			collectNodes(desc, "", &nodes)
			nm := 1 + tape.Choose("hm.count", 2)
			for i := 0; i < nm; i++ {
				d, ok := applyMutation(desc, tape.Choose("hm.node", len(nodes)), mutationKinds[tape.Choose("hm.kind", len(mutationKinds))], tape.Choose("hm.variant", 16))
				if ok {
					muts = append(muts, d)
				}
			}
		}
	}
	vals := exerciseValues(rt.NewTape(0xE, runIdx), pr)
	plan := &ClientPlan{Plugin: pr, Version: 3, Features: map[string]bool{}, C2S: drawPipe(tape, "c2s", false), S2C: drawPipe(tape, "s2c", false)}
	strat, stratName := drawStrategy(tape)
	var schemaErr error
	var got *schema.SchemaSchema
	var panics []opPanic
	ops := 0
	var s2c *rt.Pipe
	out := rt.Run(t, rt.Config{Tape: tape, Strategy: strat, MaxSteps: 400000, Trace: trace}, func(s *rt.Sim) {
		c2s := rt.NewPipe(plan.C2S)
		s2c = rt.NewPipe(plan.S2C)
		srvDone := make(chan struct{})
		rt.GoNamed("scriptserver", func() {
			defer close(srvDone)
			defer c2s.CloseRead()
			defer s2c.CloseWrite()
			buf := make([]byte, 64)
			if _, err := c2s.Read(buf); err != nil {
				return
			}
			_, _ = s2c.Write(enc(map[string]any{"version": int64(3), "schema": desc}))
			for {
				if _, err := c2s.Read(buf); err != nil {
					return
				}
			}
		})
		channel := rt.Duplex{In: s2c, Out: c2s}
		client := atp.NewClientWithLogger(channel, nil)
		guarded("ReadSchema", &panics, func() { got, schemaErr = client.ReadSchema() })
		if got != nil && schemaErr == nil {
			p, n := exerciseSchema(got, vals)
			panics = append(panics, p...)
			ops += n
		}
		guarded("Close", &panics, func() { _ = client.Close() })
		_ = channel.Close()
		rt.Yield(siteWaitServer)
		<-srvDone
	})
	_ = context.Background
	rec.Steps, rec.Switches, rec.Preempt = out.Steps, out.Switches, out.Preemptions
	rec.SchedSig = fmt.Sprintf("%016x/%s", out.SchedSig, strings.Join(muts, "+"))
	rec.LogHash = fmt.Sprintf("%016x", out.LogHash)
	rec.Strategy = stratName
	rec.Nontrivial = len(muts) > 0
	accepted := got != nil && schemaErr == nil
	if len(muts) > 0 {
		rec.Faults["hello-mutation"] = len(muts)
	}
	if s2c != nil && s2c.FragmentReads > 0 {
		rec.Faults["frag"] = s2c.FragmentReads
	}
	rec.Features = []string{batch}
	if accepted {
		rec.Features = append(rec.Features, "accepted")
	} else {
		rec.Features = append(rec.Features, "rejected")
	}
	rec.Probes = map[string]int{"ops_on_accepted_schema": ops}
	if accepted {
		rec.Probes["mutated_schema_accepted"] = 1
	} else {
		rec.Probes["mutated_schema_rejected"] = 1
	}
	errText := ""
	if schemaErr != nil {
		errText = trunc(schemaErr.Error(), 200)
	}
	rec.Sample = map[string]any{"mutations": muts, "accepted": accepted, "readschema_error": errText, "operations_exercised": ops, "steps": out.Steps}
	if out.Budget {
		rec.Outcome = "infra"
		rec.Reason = fmt.Sprintf("step budget exceeded (%d steps)", out.Steps)
		return rec
	}
	if out.BubblePanic != "" && !out.Deadlock {
		rec.Outcome = "infra"
		rec.Reason = "bubble panic: " + trunc(out.BubblePanic, 3000)
		return rec
	}
	seen := map[string]bool{}
	for _, p := range panics {
		fr := ""
		if len(p.Frames) > 0 {
			fr = p.Frames[0]
		}
		sig := opClass(p.Op) + ": " + stripVolatile(p.Value) + " @ " + fr
		if seen[sig] {
			continue
		}
		seen[sig] = true
		rec.Violations = append(rec.Violations, Violation{"C10", "panic", sig, fmt.Sprintf("%s panicked on a schema received in a hello message (mutations %v): %s frames=%v", p.Op, muts, p.Value, p.Frames)})
	}
	for _, p := range out.Panics {
		rec.Violations = append(rec.Violations, Violation{"C10", "panic", panicSignature(p), fmt.Sprintf("goroutine %s panicked: %s frames=%v", p.G, p.Value, p.Frames)})
	}
	if out.Deadlock {
		// the engine goroutine stuck inside the SDK (ReadSchema or an operation on the accepted schema never returns)
		// is the property's "total" clause; anything else is a harness matter
		sdkStuck := ""
		for _, b := range out.Blocked {
			if strings.HasPrefix(b.Name, "main") && !strings.Contains(b.Name, "scriptserver") && (strings.HasPrefix(b.Func, "atp/") || strings.HasPrefix(b.Func, "schema/") || strings.HasPrefix(b.Wait, "parked:sync.")) {
				sdkStuck = b.Func + " [" + b.Wait + "]"
			}
		}
		if sdkStuck != "" {
			rec.Violations = append(rec.Violations, Violation{"C10", "deadlock", "engine-side call never returns: " + stripOrdinal(sdkStuck), fmt.Sprintf("loading or using a schema received in a hello message (mutations %v) blocks for ever: %v", muts, out.Blocked)})
		} else {
			rec.Violations = append(rec.Violations, Violation{"HARNESS", "deadlock", blockedSignature(out.Blocked, "harness."), fmt.Sprint(out.Blocked)})
		}
	}
	if len(rec.Violations) > 0 {
		rec.Outcome = "violation"
	} else {
		rec.Outcome = "ok"
	}
	return rec
}

func opClass(op string) string {
	if op == "ReadSchema" {
		return "load"
	}
	return "use"
}

// stripVolatile removes run-specific text (addresses, generated names) from panic values.
func stripVolatile(s string) string {
	var b strings.Builder
	quote := byte(0)
	for i := 0; i < len(s) && b.Len() < 60; i++ {
		c := s[i]
		if quote != 0 {
			if c == quote {
				quote = 0
			}
			continue
		}
		if c == '"' || c == '\'' || c == '`' {
			quote = c
			b.WriteString("<id>")
			continue
		}
		if c == '\n' || c == ';' {
			break
		}
		if c >= '0' && c <= '9' {
			continue
		}
		b.WriteByte(c)
	}
	return strings.TrimSpace(b.String())
}
