package harness

import (
	"context"
	"encoding/json"
	"errors"
	"fmt"
	"reflect"
	"sort"
	"strings"
	"sync"
	"testing"

	"go.flow.arcalot.io/pluginsdk/schema"
	rt "go.flow.arcalot.io/pluginsdk/zzsimrt"
)

// StepOp is one CallStep / CallSignal of a C11 workload.
type StepOp struct {
	Kind   string `json:"kind"` // step | signal
	RunID  string `json:"run_id"`
	Step   string `json:"step"`
	Signal string `json:"signal,omitempty"`
	Nonce  string `json:"nonce,omitempty"`
	K      int64  `json:"k,omitempty"`
	Input  any    `json:"input"`
}

// StepsPlan is the pre-drawn part of a C11 run.
type StepsPlan struct {
	Plugin  *PluginRecipe        `json:"plugin"`
	Workers [][]StepOp           `json:"workers"`
	Behs    map[string]Behaviour `json:"behs"`
}

// PlanSteps draws a C11 workload.
func PlanSteps(s Src) *StepsPlan {
	p := &StepsPlan{Behs: map[string]Behaviour{}}
	p.Plugin = GenPlugin(s, false)
	for i := range p.Plugin.Steps {
		st := &p.Plugin.Steps[i]
		// most steps handle signals; the same signal ID may have another data schema on another step, and a
		// step may have no signal handlers at all
		st.HasSignals = s.Choose("st.hassig", 5) != 0
		st.SigVariant = s.Choose("st.sigvariant", 4)
		if s.Choose("st.optionalinput", 4) == 3 {
			// a step whose input requires nothing (an empty object is acceptable; a nil input still is not)
			st.Input = ScopeRecipe{Root: st.Input.Root, Objects: []ObjectRecipe{{ID: st.Input.Root, Props: []PropRecipe{
				{Name: "nonce", T: TypeRecipe{Kind: "string"}},
				{Name: "note", T: TypeRecipe{Kind: "string"}, Default: strp(`"n/a"`)},
			}}}}
		}
		st.WithInit = s.Choose("st.init", 4) != 0
		if !st.WithInit && s.Choose("st.anydata", 2) == 1 {
			st.AnyData = true
		}
	}
	nworkers := 2 + s.Choose("st.workers", 5)
	p.Workers = make([][]StepOp, nworkers)
	nruns := 1 + s.Choose("st.runs", 3)
	kNo := int64(0)
	for r := 0; r < nruns; r++ {
		st := &p.Plugin.Steps[s.Choose("st.step", len(p.Plugin.Steps))]
		runID := fmt.Sprintf("run-%d", r+1)
		nonce := fmt.Sprintf("nonce-%d", r+1)
		vg := &ValGen{S: s, Scope: &st.Input, Corrupt: chance(s, "st.bad", 1, 5)}
		op := StepOp{Kind: "step", RunID: runID, Step: st.ID, Nonce: nonce, Input: vg.Object(st.Input.Root, map[string]any{"nonce": nonce})}
		beh := Behaviour{Kind: "ok"}
		switch s.Choose("st.beh", 8) {
		case 1:
			beh.Kind = "alt"
		case 2:
			beh.Kind = "error"
		case 3:
			beh.Kind = "undeclared"
		case 4:
			beh.Kind = "baddata"
		case 5:
			beh.Kind = "empty"
		case 6:
			beh.Kind = emptyBadKinds[s.Choose("st.emptybad", len(emptyBadKinds))]
		}
		p.Behs[nonce] = beh
		if chance(s, "st.nilinput", 1, 12) {
			op.Input = nil // no configuration at all: never an acceptable object
		}
		if chance(s, "st.unknownstep", 1, 10) {
			op.Step = "no-such-step"
		}
		w := s.Choose("st.worker", nworkers)
		p.Workers[w] = append(p.Workers[w], op)
		nsig := s.Choose("st.nsig", 4)
		for j := 0; j < nsig; j++ {
			kNo++
			sop := StepOp{Kind: "signal", RunID: runID, Step: st.ID, Signal: "poke", K: kNo, Input: map[string]any{"k": kNo}}
			switch s.Choose("st.sigkind", 8) {
			case 1:
				sop.Signal = "no-such-signal"
			case 2:
				sop.Input = map[string]any{"k": "not a number"}
			case 3:
				sop.Step = "no-such-step"
			case 4:
				sop.Input = nil
			}
			w := s.Choose("st.worker", nworkers)
			// a signal may be placed before or after the step call of its run in its worker's list
			if len(p.Workers[w]) > 0 && s.Choose("st.front", 2) == 1 {
				p.Workers[w] = append([]StepOp{sop}, p.Workers[w]...)
			} else {
				p.Workers[w] = append(p.Workers[w], sop)
			}
		}
	}
	return p
}

// OpResult is what one call returned.
type OpResult struct {
	OutputID string
	Data     any
	Err      error
	Panic    string
	Done     bool
}

// errClass names the outermost SDK error type of an error: that is what tells a caller whether the step was
// unknown, the input rejected or the output undeclared/invalid.
func errClass(err error) string {
	for e := err; e != nil; e = errors.Unwrap(e) {
		switch e.(type) {
		case schema.BadArgumentError, *schema.BadArgumentError:
			return "BadArgumentError"
		case schema.InvalidInputError, *schema.InvalidInputError:
			return "InvalidInputError"
		case schema.InvalidOutputError, *schema.InvalidOutputError:
			return "InvalidOutputError"
		}
	}
	if err == nil {
		return "nil"
	}
	return fmt.Sprintf("other(%T)", err)
}

func doOp(p *schema.CallableSchema, op *StepOp) (res OpResult) {
	defer func() {
		if r := recover(); r != nil {
			res.Panic = fmt.Sprint(r)
		}
		res.Done = true
	}()
	if op.Kind == "step" {
		id, data, err := p.CallStep(context.Background(), op.RunID, op.Step, op.Input)
		return OpResult{OutputID: id, Data: data, Err: err}
	}
	err := p.CallSignal(context.Background(), op.RunID, op.Step, op.Signal, op.Input)
	return OpResult{Err: err}
}

type stepsEngine struct{}

func init() { engines["C11"] = stepsEngine{} }

var siteStepsWorker = rt.H("harness.stepsWorker")

func invKey(inv Invocation) string {
	if inv.Signal != "" {
		if m, ok := inv.Arg.(map[string]any); ok {
			return fmt.Sprintf("signal:%v", m["k"])
		}
		return "signal:?"
	}
	return "step:" + inv.Nonce
}

func opKey(op *StepOp) string {
	if op.Kind == "signal" {
		return fmt.Sprintf("signal:%d", op.K)
	}
	return "step:" + op.Nonce
}

func (stepsEngine) Run(t *testing.T, batch string, tape *rt.Tape, runIdx uint64, extra json.RawMessage, trace func(string)) RunRecord {
	rec := RunRecord{Faults: map[string]int{}}
	var plan *StepsPlan
	var strat rt.Strategy
	var stratName string
	sample := map[string]any{}
	if batch == "c11.sweep" && len(extra) > 0 {
		var sw SweepExtra
		if err := json.Unmarshal(extra, &sw); err != nil {
			return RunRecord{Outcome: "infra", Reason: "bad sweep extra"}
		}
		sites := sweepSites(sw.Files)
		if len(sites) == 0 {
			return RunRecord{Outcome: "infra", Reason: "sweep: no sites"}
		}
		nh := sw.History
		if nh <= 0 {
			nh = 1
		}
		hist := runIdx % uint64(nh)
		pointNo := runIdx / uint64(nh)
		var pts []rt.DelayPoint
		if sw.Pairs {
			pts = []rt.DelayPoint{
				{Site: sites[tape.Choose("sweep.a", len(sites))], Occ: sw.Occ[tape.Choose("sweep.ao", len(sw.Occ))]},
				{Site: sites[tape.Choose("sweep.b", len(sites))], Occ: sw.Occ[tape.Choose("sweep.bo", len(sw.Occ))]},
			}
		} else {
			per := uint64(len(sw.Occ))
			pts = []rt.DelayPoint{{Site: sites[(pointNo/per)%uint64(len(sites))], Occ: sw.Occ[pointNo%per]}}
		}
		ds := &rt.DelayStrategy{Points: pts}
		strat, stratName = ds, "delay"
		var pl []string
		for _, p := range pts {
			pl = append(pl, fmt.Sprintf("%s#%d", rt.SiteLabel(p.Site), p.Occ))
		}
		sample["delay_points"] = pl
		plan = PlanSteps(rt.NewTape(0xC11, hist))
		defer func() {
			if ds.Fired > 0 {
				rec.Faults["sched-delay"] = ds.Fired
			}
		}()
	} else {
		plan = PlanSteps(tape)
		strat, stratName = drawStrategy(tape)
	}
	recorder := newRecorder(plan.Behs)
	var plugin *schema.CallableSchema
	results := make([][]OpResult, len(plan.Workers))
	var simRef *rt.Sim
	out := rt.Run(t, rt.Config{Tape: tape, Strategy: strat, MaxSteps: 300000, Trace: trace, LocalSeams: rt.RaceBuild}, func(s *rt.Sim) {
		simRef = s
		plugin = BuildPlugin(plan.Plugin, recorder)
		var wg sync.WaitGroup
		for w := range plan.Workers {
			ops := plan.Workers[w]
			results[w] = make([]OpResult, len(ops))
			res := results[w]
			wg.Add(1)
			rt.GoNamed("worker", func() {
				defer wg.Done()
				for i := range ops {
					rt.Yield(siteStepsWorker)
					res[i] = doOp(plugin, &ops[i])
				}
			})
		}
		rt.Yield(siteWaitCallers)
		wg.Wait()
		rt.Yield(siteHarness)
	})
	rec.Steps, rec.Switches, rec.Preempt = out.Steps, out.Switches, out.Preemptions
	rec.SchedSig = fmt.Sprintf("%016x", out.SchedSig)
	rec.LogHash = fmt.Sprintf("%016x", out.LogHash)
	rec.Strategy = stratName
	rec.Nontrivial = out.Preemptions > 0
	if simRef != nil {
		for s := range simRef.SitesSeen {
			if s >= 0 && s < len(rt.SiteYield) {
				rec.Sites = append(rec.Sites, s)
			}
		}
		sort.Ints(rec.Sites)
		for h := range simRef.PairsSeen {
			rec.PairHashes = append(rec.PairHashes, h)
		}
		sort.Slice(rec.PairHashes, func(i, j int) bool { return rec.PairHashes[i] < rec.PairHashes[j] })
	}
	var wl []string
	for w, ops := range plan.Workers {
		for _, op := range ops {
			wl = append(wl, fmt.Sprintf("worker%d: %s run=%s step=%s signal=%s", w, op.Kind, op.RunID, op.Step, op.Signal))
		}
	}
	sample["workload"] = wl
	sample["strategy"] = stratName
	sample["steps"] = out.Steps
	rec.Sample = sample
	if out.Budget {
		rec.Outcome = "infra"
		rec.Reason = fmt.Sprintf("step budget exceeded (%d steps)", out.Steps)
		return rec
	}
	if out.BubblePanic != "" && !out.Deadlock {
		rec.Outcome = "infra"
		rec.Reason = "bubble panic: " + trunc(out.BubblePanic, 3000)
		return rec
	}
	add := func(class, sig, detail string) {
		rec.Violations = append(rec.Violations, Violation{"C11", class, sig, detail})
	}
	for _, p := range out.Panics {
		add("panic", panicSignature(p), fmt.Sprintf("goroutine %s panicked: %s frames=%v", p.G, p.Value, p.Frames))
	}
	if out.Deadlock {
		add("deadlock", blockedSignature(out.Blocked, "schema/"), fmt.Sprint(out.Blocked))
	}
	if len(rec.Violations) == 0 {
		// ---- per call: sequential reference on a fresh copy, alone
		invs := map[string][]Invocation{}
		for _, inv := range recorder.Invocations {
			invs[invKey(inv)] = append(invs[invKey(inv)], inv)
		}
		for w, ops := range plan.Workers {
			for i := range ops {
				op := &ops[i]
				got := results[w][i]
				if !got.Done {
					add("lost", "call-did-not-return", opKey(op))
					continue
				}
				refRec := newRecorder(plan.Behs)
				refRec.NoSleep = true
				ref := BuildPlugin(plan.Plugin, refRec)
				want := doOp(ref, op)
				if got.Panic != "" {
					add("panic", "call-panicked: "+stripVolatile(got.Panic), fmt.Sprintf("%s %s/%s/%s panicked: %s", op.Kind, op.RunID, op.Step, op.Signal, got.Panic))
					continue
				}
				if want.Panic != "" {
					continue // the call panics even alone: reported above when it happens in the run
				}
				if errClass(got.Err) != errClass(want.Err) {
					add("mismatch", "error-type-differs-from-sequential", fmt.Sprintf("%s %s/%s/%s: alone %s (%v), in the run %s (%v)", op.Kind, op.RunID, op.Step, op.Signal, errClass(want.Err), want.Err, errClass(got.Err), got.Err))
					continue
				}
				if op.Kind == "step" && want.Err == nil {
					wn, _ := Norm(want.Data)
					gn, _ := Norm(got.Data)
					if got.OutputID != want.OutputID || !reflect.DeepEqual(wn, gn) {
						add("mismatch", "result-differs-from-sequential", fmt.Sprintf("step %s: alone (%q,%s) in the run (%q,%s)", op.RunID, want.OutputID, short(wn), got.OutputID, short(gn)))
					}
				}
				// handler invoked exactly once iff the reference invoked it, with the same argument
				wantInv := 0
				var wantArg any
				for _, inv := range refRec.Invocations {
					if invKey(inv) == opKey(op) {
						wantInv++
						wantArg = inv.Arg
					}
				}
				// what the plan itself says must happen, independent of the library (the sequential
				// reference runs the same code and shares its functional mistakes)
				if op.Kind == "step" {
					beh := plan.Behs[op.Nonce].Kind
					nInv := len(invs[opKey(op)])
					switch {
					case op.Step == "no-such-step":
						if errClass(got.Err) != "BadArgumentError" || nInv != 0 {
							add("mismatch", "model:unknown-step", fmt.Sprintf("step %s: unknown step ID must give BadArgumentError and no handler call; got %s (%v), handler ran %d times", op.RunID, errClass(got.Err), got.Err, nInv))
						}
					case op.Input == nil:
						if errClass(got.Err) != "InvalidInputError" || nInv != 0 {
							add("mismatch", "model:nil-input-accepted", fmt.Sprintf("step %s: a nil raw input is no object and must give InvalidInputError without a handler call; got %s (%v), handler ran %d times", op.RunID, errClass(got.Err), got.Err, nInv))
						}
					case wantInv != 1 || nInv != 1:
						// whether the input is acceptable is taken from the sequential reference (presence
						// rules make "valid by construction" unreliable); a differing count is reported below
					case beh == "ok" || beh == "alt" || beh == "error" || beh == "empty":
						wantID := map[string]string{"ok": "success", "alt": "alt", "error": "error", "empty": "empty"}[beh]
						if got.Err != nil || got.OutputID != wantID {
							add("mismatch", "model:conforming-output-not-returned:"+beh, fmt.Sprintf("step %s: handler returned conforming data for declared output %q; CallStep gave (%q, %v)", op.RunID, wantID, got.OutputID, got.Err))
						}
					case beh == "undeclared":
						if errClass(got.Err) != "InvalidOutputError" {
							add("mismatch", "model:undeclared-output-id", fmt.Sprintf("step %s: undeclared output ID must give InvalidOutputError, got %s (%v) output %q", op.RunID, errClass(got.Err), got.Err, got.OutputID))
						}
					case beh == "baddata" || strings.HasPrefix(beh, "emptybad"):
						if got.Err == nil {
							add("mismatch", "model:non-conforming-output-accepted:"+beh, fmt.Sprintf("step %s: handler returned data that does not satisfy the declared output schema (%s); CallStep reported success (%q, %s)", op.RunID, beh, got.OutputID, short(got.Data)))
						}
					}
				}
				if op.Kind == "signal" && op.Input == nil && op.Step != "no-such-step" && op.Signal == "poke" {
					if got.Err == nil || len(invs[opKey(op)]) != 0 {
						add("mismatch", "model:nil-signal-input-accepted", fmt.Sprintf("signal %s/%s: a nil payload is no object and must be an error without a handler call; got err=%v, handler ran %d times", op.RunID, op.Step, got.Err, len(invs[opKey(op)])))
					}
				}
				gotInvs := invs[opKey(op)]
				if len(gotInvs) != wantInv {
					add("mismatch", "handler-invocation-count", fmt.Sprintf("%s %s: handler ran %d times, sequential reference %d", op.Kind, opKey(op), len(gotInvs), wantInv))
				} else if wantInv == 1 && !reflect.DeepEqual(gotInvs[0].Arg, wantArg) {
					add("mismatch", "handler-argument", fmt.Sprintf("%s %s: handler saw %s, reference %s", op.Kind, opKey(op), short(gotInvs[0].Arg), short(wantArg)))
				}
			}
		}
		// ---- per run ID: one step data, created once, seen by every handler of the run
		type runKey struct{ step, run string }
		tokensOfRun := map[runKey]map[*Token]bool{}
		opRun := map[string]runKey{}
		for _, ops := range plan.Workers {
			for i := range ops {
				opRun[opKey(&ops[i])] = runKey{ops[i].Step, ops[i].RunID}
			}
		}
		withInit := map[string]bool{}
		for _, st := range plan.Plugin.Steps {
			// step data exists only for steps built with signal handlers and an initializer
			withInit[st.ID] = st.WithInit && st.HasSignals && !st.AnyData
		}
		for _, inv := range recorder.Invocations {
			rk, ok := opRun[invKey(inv)]
			if !ok || !withInit[rk.step] {
				continue
			}
			if tokensOfRun[rk] == nil {
				tokensOfRun[rk] = map[*Token]bool{}
			}
			tokensOfRun[rk][inv.Token] = true
		}
		owner := map[*Token]runKey{}
		for rk, toks := range tokensOfRun {
			if len(toks) != 1 {
				add("mismatch", "handlers-of-one-run-saw-different-step-data", fmt.Sprintf("run %s of step %s: %d different step data values were seen", rk.run, rk.step, len(toks)))
			}
			for tk := range toks {
				if tk == nil {
					add("mismatch", "handler-saw-nil-step-data", fmt.Sprintf("run %s of step %s", rk.run, rk.step))
					continue
				}
				if o, dup := owner[tk]; dup && o != rk {
					add("mismatch", "step-data-shared-between-runs", fmt.Sprintf("%v and %v", o, rk))
				}
				owner[tk] = rk
			}
		}
		runsOfStep := map[string]map[string]bool{}
		for _, rk := range opRun {
			if runsOfStep[rk.step] == nil {
				runsOfStep[rk.step] = map[string]bool{}
			}
			runsOfStep[rk.step][rk.run] = true
		}
		for step, n := range recorder.InitCalls {
			if n > len(runsOfStep[step]) {
				add("duplicate", "initializer-ran-more-than-once-per-run", fmt.Sprintf("step %s: %d run IDs, initializer ran %d times", step, len(runsOfStep[step]), n))
			}
		}
	}
	if len(rec.Violations) > 0 {
		rec.Outcome = "violation"
	} else {
		rec.Outcome = "ok"
	}
	return rec
}
