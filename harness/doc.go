package harness
