package harness

import (
	"encoding/json"
	"errors"
	"fmt"
	"sort"
	"strings"
	"testing"
	"time"

	"go.flow.arcalot.io/pluginsdk/schema"
	rt "go.flow.arcalot.io/pluginsdk/zzsimrt"
)

type sessionEngine struct{}

// c05Engine adds the legacy framing: the real client against a stub v1 plugin that answers with in-process results.
type c05Engine struct{}

func (c05Engine) Run(t *testing.T, batch string, tape *rt.Tape, runIdx uint64, extra json.RawMessage, trace func(string)) RunRecord {
	if batch == "c05.v1" {
		return clientEngine{"C05"}.Run(t, batch, tape, runIdx, extra, trace)
	}
	return sessionEngine{}.Run(t, batch, tape, runIdx, extra, trace)
}

func init() {
	engines["C05"] = c05Engine{}
	engines["C06"] = c06Engine{}
	engines["C09"] = sessionEngine{}
}

// c06Engine runs the real-server session batches and the scripted-healthy-peer batches.
type c06Engine struct{}

func (c06Engine) Run(t *testing.T, batch string, tape *rt.Tape, runIdx uint64, extra json.RawMessage, trace func(string)) RunRecord {
	if strings.HasPrefix(batch, "c06.peer") {
		return clientEngine{"C06"}.Run(t, batch, tape, runIdx, extra, trace)
	}
	if batch == "c06.race" {
		// the same simulation in a -race build: unsynchronised map access in the client kills the engine
		// process, and no Execute returns
		return watchRaces("C06", func() RunRecord { return sessionEngine{}.Run(t, batch, tape, runIdx, extra, trace) })
	}
	return sessionEngine{}.Run(t, batch, tape, runIdx, extra, trace)
}

// SweepExtra selects one delay point of a sweep: the worker maps run indexes to points.
type SweepExtra struct {
	Files   []string `json:"files"`   // site label prefixes (file names) whose yield sites are swept
	Occ     []int    `json:"occ"`     // occurrences to hold
	History int      `json:"history"` // number of canonical histories
	Pairs   bool     `json:"pairs"`   // sample pairs instead of singles
}

func sweepSites(files []string) []int {
	var out []int
	for i, l := range rt.SiteTable {
		if i >= len(rt.SiteYield) || !rt.SiteYield[i] {
			continue
		}
		for _, f := range files {
			if len(l) >= len(f) && l[:len(f)] == f {
				out = append(out, i)
				break
			}
		}
	}
	return out
}

func sessionOptsFor(batch string) SessionOpts {
	switch batch {
	case "c06.serial":
		return SessionOpts{MaxCallers: 1, MaxCalls: 4, SerialOnly: true, Signals: true}
	case "c06.mixed", "c06.sweep", "c06.race":
		return SessionOpts{MaxCallers: 3, MaxCalls: 3, Signals: true, BadInputs: true, UnknownStep: true, SlowSteps: true, CloseEarly: true, DupRunIDs: true, Latency: true}
	case "c06.blank":
		// some calls name no step: the server's answer carries no run ID and the client fails every call in flight
		// with it (so transparency, C05, is not judged on these sessions; every call must still return once)
		return SessionOpts{MaxCallers: 3, MaxCalls: 3, Signals: true, BadInputs: true, UnknownStep: true, SlowSteps: true, CloseEarly: true, DupRunIDs: true, Latency: true, BlankStep: true}
	case "c05.basic":
		return SessionOpts{MaxCallers: 4, MaxCalls: 3, BadInputs: true, UnknownStep: true, BigPayloads: true, RichSchemas: true, SlowSteps: true, Latency: true, DupRunIDs: true}
	case "c05.signals":
		return SessionOpts{MaxCallers: 3, MaxCalls: 3, Signals: true, BadInputs: true, BigPayloads: true, SlowSteps: true, DupRunIDs: true}
	case "c13.session":
		return SessionOpts{MaxCallers: 4, MaxCalls: 2, BigPayloads: true, RichSchemas: true, BadInputs: true}
	case "c09.session":
		return SessionOpts{MaxCallers: 2, MaxCalls: 3, Signals: true, BadInputs: true, RichSchemas: true, BigPayloads: true}
	case "c05.misbehave":
		return SessionOpts{MaxCallers: 3, MaxCalls: 2, Misbehave: true, BadInputs: true, BigPayloads: true}
	}
	return SessionOpts{MaxCallers: 2, MaxCalls: 2}
}

func drawStrategy(tape *rt.Tape) (rt.Strategy, string) {
	switch tape.Choose("strategy", 6) {
	case 0, 1:
		return rt.RandomStrategy{}, "random"
	case 2:
		return rt.StickyStrategy{PerMille: 900}, "sticky900"
	case 3:
		return rt.StickyStrategy{PerMille: 600}, "sticky600"
	case 4:
		return &rt.PCTStrategy{Depth: 1 + tape.Choose("pct.depth", 4), EstSteps: 1500}, "pct"
	default:
		return &rt.DelayStrategy{Noise: 20 + tape.Choose("delay.noise", 200)}, "mostly-sequential"
	}
}

func (sessionEngine) Run(t *testing.T, batch string, tape *rt.Tape, runIdx uint64, extra json.RawMessage, trace func(string)) RunRecord {
	rec := RunRecord{Faults: map[string]int{}}
	opts := sessionOptsFor(batch)
	var strat rt.Strategy
	var stratName string
	var sample = map[string]any{}
	if batch == "c06.sweep" && len(extra) > 0 {
		var sw SweepExtra
		if err := json.Unmarshal(extra, &sw); err != nil {
			return RunRecord{Outcome: "infra", Reason: "bad sweep extra: " + err.Error()}
		}
		sites := sweepSites(sw.Files)
		if len(sites) == 0 {
			return RunRecord{Outcome: "infra", Reason: "sweep: no sites"}
		}
		nh := sw.History
		if nh <= 0 {
			nh = 1
		}
		per := uint64(len(sw.Occ))
		pointNo := runIdx / uint64(nh)
		hist := runIdx % uint64(nh)
		var pts []rt.DelayPoint
		if sw.Pairs {
			// pairs are drawn from the tape
			a := sites[tape.Choose("sweep.a", len(sites))]
			b := sites[tape.Choose("sweep.b", len(sites))]
			pts = []rt.DelayPoint{{Site: a, Occ: sw.Occ[tape.Choose("sweep.ao", len(sw.Occ))]}, {Site: b, Occ: sw.Occ[tape.Choose("sweep.bo", len(sw.Occ))]}}
		} else {
			si := (pointNo / per) % uint64(len(sites))
			oi := pointNo % per
			pts = []rt.DelayPoint{{Site: sites[si], Occ: sw.Occ[oi]}}
		}
		ds := &rt.DelayStrategy{Points: pts}
		strat, stratName = ds, "delay"
		var pl []string
		for _, p := range pts {
			pl = append(pl, fmt.Sprintf("%s#%d", rt.SiteLabel(p.Site), p.Occ))
		}
		sample["delay_points"] = pl
		// the canonical histories: the workload comes from a tape that depends on the history number only
		wl := rt.NewTape(0xC06, hist)
		plan := PlanSession(wl, sessionOptsFor("c06.serial"))
		if hist%2 == 1 {
			plan = PlanSession(wl, sessionOptsFor("c06.mixed"))
		}
		return runSessionPlan(t, plan, tape, strat, stratName, sample, trace, func(o rt.Outcome) {
			if ds.Fired > 0 {
				rec.Faults["sched-delay"] = ds.Fired
			}
		}, &rec)
	}
	plan := PlanSession(tape, opts)
	if strings.HasPrefix(batch, "c09.") {
		plan.Features["c09"] = true
	}
	strat, stratName = drawStrategy(tape)
	return runSessionPlan(t, plan, tape, strat, stratName, sample, trace, nil, &rec)
}

func runSessionPlan(t *testing.T, plan *SessionPlan, tape *rt.Tape, strat rt.Strategy, stratName string, sample map[string]any, trace func(string), after func(rt.Outcome), rec *RunRecord) RunRecord {
	if why := describable(plan.Plugin); why != "" {
		if plan.Features["c09"] {
			// The generator only produces plugin schemas the unchanged SDK can describe and rebuild (shapes it cannot -
			// negative integer bounds, enum-keyed maps, nil enum display values - are avoided at the source). A plugin
			// that cannot describe itself, or whose description cannot be rebuilt, can never send a usable hello
			// message: that is the hello clause of C09 itself, not a premise.
			sig := "own-description-not-rebuildable: "
			if strings.HasPrefix(why, "meta-schema: ") {
				sig = "own-description-rejected-by-meta-schema: "
			}
			rec.Outcome = "violation"
			rec.Violations = append(rec.Violations, Violation{"C09", "mismatch", sig + stripVolatile(strings.TrimPrefix(why, "meta-schema: ")), "the plugin's own self-description (what the hello message carries) cannot be produced or rebuilt: " + why})
			rec.SchedSig = fmt.Sprintf("%x", fnvString(why))
			return *rec
		}
		rec.Outcome = "excluded"
		rec.Reason = "recipe not self-describable (pure-schema matter, not this check's): " + why
		return *rec
	}
	obs := &SessionObs{}
	var simRef *rt.Sim
	onPanic := func(ev rt.PanicEvent) {
		// a panic in any goroutine of the plugin kills the plugin process: the OS closes its descriptors
		if strings.Contains(ev.Kind, "server") && obs.C2S != nil {
			obs.ServerDied = true
			obs.C2S.KillRead()
			obs.S2C.KillWrite()
		}
	}
	out := rt.Run(t, rt.Config{Tape: tape, Strategy: strat, MaxSteps: sessionMaxSteps(), Trace: trace, OnPanic: onPanic, LocalSeams: rt.RaceBuild}, func(s *rt.Sim) {
		simRef = s
		RunSession(s, plan, obs)
	})
	if after != nil {
		after(out)
	}
	rec.Steps, rec.Switches, rec.Preempt = out.Steps, out.Switches, out.Preemptions
	rec.FakeMs = out.FakeElapsed.Milliseconds()
	rec.SchedSig = fmt.Sprintf("%016x", out.SchedSig)
	rec.LogHash = fmt.Sprintf("%016x", out.LogHash)
	rec.Strategy = stratName
	rec.Features = sortedFeatureList(plan.Features)
	rec.Nontrivial = out.Preemptions > 0
	if simRef != nil {
		rec.Probes = simRef.Probes
		for s := range simRef.SitesSeen {
			if s >= 0 && s < len(rt.SiteYield) {
				rec.Sites = append(rec.Sites, s)
			}
		}
		sort.Ints(rec.Sites)
		rec.Pairs = len(simRef.PairsSeen)
		for h := range simRef.PairsSeen {
			rec.PairHashes = append(rec.PairHashes, h)
		}
		sort.Slice(rec.PairHashes, func(i, j int) bool { return rec.PairHashes[i] < rec.PairHashes[j] })
	}
	if obs.C2S != nil {
		if obs.C2S.FragmentReads+obs.S2C.FragmentReads > 0 {
			rec.Faults["frag"] = obs.C2S.FragmentReads + obs.S2C.FragmentReads
		}
		if obs.C2S.Coalesced+obs.S2C.Coalesced > 0 {
			rec.Faults["coalesce"] = obs.C2S.Coalesced + obs.S2C.Coalesced
		}
		if n := obs.C2S.EOFsWithData + obs.S2C.EOFsWithData; n > 0 {
			rec.Faults["eof-with-data"] = n
		}
		if plan.C2S.Latency > 0 || plan.S2C.Latency > 0 {
			rec.Faults["latency"] = 1
		}
	}
	for _, cs := range plan.Callers {
		for _, c := range cs {
			if c.Beh.SleepMs > 0 {
				rec.Faults["slow-step"]++
			}
			switch c.Beh.Kind {
			case "panic":
				rec.Faults["step-panic"]++
			case "undeclared":
				rec.Faults["step-undeclared-output"]++
			case "baddata":
				rec.Faults["step-bad-data"]++
			case "error":
				rec.Faults["step-error-output"]++
			}
		}
	}
	ncalls := 0
	for _, cs := range plan.Callers {
		ncalls += len(cs)
	}
	sample["callers"] = len(plan.Callers)
	sample["calls"] = ncalls
	sample["c2s"] = fmt.Sprintf("cap=%d readmax=%v writemax=%v lat=%v", plan.C2S.Cap, plan.C2S.ReadMax, plan.C2S.WriteMax, plan.C2S.Latency)
	sample["s2c"] = fmt.Sprintf("cap=%d readmax=%v writemax=%v lat=%v", plan.S2C.Cap, plan.S2C.ReadMax, plan.S2C.WriteMax, plan.S2C.Latency)
	sample["strategy"] = stratName
	var wl []string
	for ci, cs := range plan.Callers {
		for _, c := range cs {
			wl = append(wl, fmt.Sprintf("caller%d: Execute(%s,%s) beh=%s sleep=%dms signals=%d chans=%v", ci, c.RunID, c.Step, c.Beh.Kind, c.Beh.SleepMs, len(c.Signals), c.WithChans))
		}
	}
	sample["workload"] = wl
	sample["steps"] = out.Steps
	sample["switches"] = out.Switches
	rec.Sample = sample
	if out.Budget {
		rec.Outcome = "infra"
		rec.Reason = fmt.Sprintf("step budget exceeded (%d steps)", out.Steps)
		return *rec
	}
	if out.BubblePanic != "" && !out.Deadlock {
		rec.Outcome = "infra"
		rec.Reason = "bubble panic: " + trunc(out.BubblePanic, 3000)
		return *rec
	}
	_ = time.Minute
	rec.Violations = JudgeSession(plan, obs, out)
	if plan.Features["c09"] && !out.Deadlock && len(out.Panics) == 0 {
		rec.Violations = append(rec.Violations, JudgeHelloFidelity(plan, obs, out)...)
	}
	if len(rec.Violations) > 0 {
		rec.Outcome = "violation"
	} else {
		rec.Outcome = "ok"
	}
	return *rec
}

// describable checks, outside the simulation, that the generated plugin schema
// can be described and rebuilt at all; if not the recipe is outside the
// premise of the session checks.
func describable(pr *PluginRecipe) (why string) {
	defer func() {
		if r := recover(); r != nil {
			why = fmt.Sprint("panic: ", r)
		}
	}()
	p := BuildPlugin(pr, newRecorder(nil))
	ser, err := p.SelfSerialize()
	if err != nil {
		return "meta-schema: " + err.Error()
	}
	n, err := Norm(ser)
	if err != nil {
		return "meta-schema: " + err.Error()
	}
	if _, err := schema.UnserializeSchema(n); err != nil {
		var ce *schema.ConstraintError
		if errors.As(err, &ce) {
			// the meta-schema rejects the form of the description (the pure clause of C09)
			return "meta-schema: " + err.Error()
		}
		return err.Error()
	}
	return ""
}

// sessionMaxSteps: the race flavour yields before every statement of the schema package as well.
func sessionMaxSteps() int {
	if rt.RaceBuild {
		return 6000000
	}
	return 400000
}
