package harness

import (
	"context"
	"fmt"
	"sort"
	"sync"
	"time"

	"go.flow.arcalot.io/pluginsdk/schema"
	rt "go.flow.arcalot.io/pluginsdk/zzsimrt"
)

// StepRecipe describes one generated plugin step.
type StepRecipe struct {
	ID           string      `json:"id"`
	Input        ScopeRecipe `json:"input"`
	HasSignals   bool        `json:"signals,omitempty"`
	WithInit     bool        `json:"init,omitempty"`
	Emitter      bool        `json:"emitter,omitempty"`
	AnyData      bool        `json:"any_data,omitempty"`       // step data type `any` and no initializer (the hello-world shape)
	SameSignalID bool        `json:"same_signal_id,omitempty"` // an emitter shares its ID with the handler
	// SigVariant selects the data schema of this step's "poke" signal: steps of one plugin may declare the same
	// signal ID with different data schemas (0: k in 0..1000, tag default "none"; 1: k in 0..5; 2: tag default "v2"; 3: nothing required)
	SigVariant int `json:"sig_variant,omitempty"`
}

// PluginRecipe describes a generated plugin schema.
type PluginRecipe struct {
	Steps []StepRecipe `json:"steps"`
}

// Behaviour of a step handler for one call (looked up by nonce).
type Behaviour struct {
	Kind    string `json:"kind"` // ok, alt, error, empty, undeclared, baddata, emptybad-*, panic
	SleepMs int    `json:"sleep_ms,omitempty"`
}

// Token is the per-run step data handed out by initializers.
type Token struct {
	ID   int
	Step string
}

// Invocation records one handler call.
type Invocation struct {
	Step   string
	Nonce  string
	Token  *Token
	Signal string // "" for the step handler
	Arg    any
}

// Recorder collects what plugin-author code observed. One per built plugin instance.
type Recorder struct {
	mu          sync.Mutex
	Behaviours  map[string]Behaviour
	Invocations []Invocation
	InitCalls   map[string]int // per step ID
	nextToken   int
	NoSleep     bool // reference runs outside the simulation do not sleep
	Tokens      []*Token
}

func newRecorder(b map[string]Behaviour) *Recorder {
	return &Recorder{Behaviours: b, InitCalls: map[string]int{}}
}

func (r *Recorder) record(inv Invocation) {
	r.mu.Lock()
	r.Invocations = append(r.Invocations, inv)
	r.mu.Unlock()
}

func (r *Recorder) behaviour(nonce string) Behaviour {
	r.mu.Lock()
	defer r.mu.Unlock()
	b, ok := r.Behaviours[nonce]
	if !ok {
		return Behaviour{Kind: "ok"}
	}
	return b
}

func (r *Recorder) newToken(step string) *Token {
	r.mu.Lock()
	defer r.mu.Unlock()
	r.nextToken++
	r.InitCalls[step]++
	t := &Token{ID: r.nextToken, Step: step}
	r.Tokens = append(r.Tokens, t)
	return t
}

var (
	siteHandler = rt.H("harness.stepHandler")
	siteSignalH = rt.H("harness.signalHandler")
	siteInit    = rt.H("harness.initializer")
)

func errorScope() *schema.ScopeSchema {
	return schema.NewScopeSchema(schema.NewObjectSchema("ErrOut", map[string]*schema.PropertySchema{
		"error": schema.NewPropertySchema(schema.NewStringSchema(nil, nil, nil), nil, true, nil, nil, nil, nil, nil),
	}))
}

// emptyScope is an output without properties ("done, nothing to report").
func emptyScope() *schema.ScopeSchema {
	// declared without a property map at all, as callers of NewObjectSchema(id, nil) do
	return schema.NewScopeSchema(schema.NewObjectSchema("Empty", nil))
}

// emptyBadKinds are the handler behaviours that return non-conforming data for the property-less output.
var emptyBadKinds = []string{"emptybad-nil", "emptybad-string", "emptybad-extra", "emptybad-int"}

func altScope() *schema.ScopeSchema {
	return schema.NewScopeSchema(schema.NewObjectSchema("AltOut", map[string]*schema.PropertySchema{
		"nonce": schema.NewPropertySchema(schema.NewStringSchema(nil, nil, nil), nil, true, nil, nil, nil, nil, nil),
		"count": schema.NewPropertySchema(schema.NewIntSchema(i64(0), nil, nil), nil, true, nil, nil, nil, nil, nil),
		"tags":  schema.NewPropertySchema(schema.NewListSchema(schema.NewStringSchema(nil, nil, nil), nil, nil), nil, false, nil, nil, nil, strp(`["t"]`), nil),
	}))
}

// pokeScope is the data schema of signals: a two-object scope whose root refers to the second object, so that
// references inside signal data schemas have to survive describe / rebuild as well.
func pokeScope() *schema.ScopeSchema { return pokeScopeVariant(0) }

func pokeScopeVariant(variant int) *schema.ScopeSchema {
	kMax, tagDefault := int64(1000), `"none"`
	kRequired, kDefault := true, (*string)(nil)
	switch variant {
	case 1:
		kMax = 5
	case 2:
		tagDefault = `"v2"`
	case 3:
		// nothing is required: an empty object is an acceptable payload (a nil payload still is not)
		kRequired, kDefault = false, strp("0")
	}
	return schema.NewScopeSchema(
		schema.NewObjectSchema("Poke", map[string]*schema.PropertySchema{
			"k":    schema.NewPropertySchema(schema.NewIntSchema(i64(0), i64(kMax), nil), nil, kRequired, nil, nil, nil, kDefault, nil),
			"meta": schema.NewPropertySchema(schema.NewRefSchema("PokeMeta", nil), nil, false, nil, nil, nil, nil, nil),
		}),
		schema.NewObjectSchema("PokeMeta", map[string]*schema.PropertySchema{
			"tag":  schema.NewPropertySchema(schema.NewStringSchema(nil, i64(20), nil), nil, false, nil, nil, nil, strp(tagDefault), nil),
			"wait": schema.NewPropertySchema(schema.NewIntSchema(nil, nil, schema.UnitDurationSeconds), nil, false, nil, nil, nil, nil, nil),
		}),
	)
}

// BuildPlugin builds a fresh callable plugin schema for a recipe.
func BuildPlugin(pr *PluginRecipe, rec *Recorder) *schema.CallableSchema {
	var steps []schema.CallableStep
	for i := range pr.Steps {
		sr := &pr.Steps[i]
		stepID := sr.ID
		input := BuildScope(&sr.Input)
		outputs := map[string]*schema.StepOutputSchema{
			"success": schema.NewStepOutputSchema(BuildScope(&sr.Input), disp("success"), false),
			"error":   schema.NewStepOutputSchema(errorScope(), disp("error"), true),
			"alt":     schema.NewStepOutputSchema(altScope(), nil, false),
			"empty":   schema.NewStepOutputSchema(emptyScope(), disp("nothing to report"), false),
		}
		handler := func(ctx context.Context, tok *Token, in any) (string, any) {
			rt.Yield(siteHandler)
			m, _ := in.(map[string]any)
			nonce, _ := m["nonce"].(string)
			b := rec.behaviour(nonce)
			rec.record(Invocation{Step: stepID, Nonce: nonce, Token: tok, Arg: in})
			if b.SleepMs > 0 && !rec.NoSleep {
				time.Sleep(time.Duration(b.SleepMs) * time.Millisecond)
				rt.Yield(siteHandler)
			}
			switch b.Kind {
			case "alt":
				return "alt", map[string]any{"nonce": nonce, "count": int64(len(m))}
			case "error":
				return "error", map[string]any{"error": "step says no: " + nonce}
			case "undeclared":
				return "no-such-output", map[string]any{"nonce": nonce}
			case "baddata":
				return "alt", map[string]any{"nonce": nonce, "count": "not a number"}
			case "panic":
				panic("handler panic for " + nonce)
			case "empty":
				return "empty", map[string]any{}
			// data that an output without properties must still reject
			case "emptybad-nil":
				return "empty", nil
			case "emptybad-string":
				return "empty", "not an object"
			case "emptybad-extra":
				return "empty", map[string]any{"undeclared": int64(1)}
			case "emptybad-int":
				return "empty", int64(7)
			}
			return "success", in
		}
		if sr.HasSignals && sr.AnyData {
			sigs := map[string]schema.CallableSignal{
				"poke": schema.NewCallableSignal[any, any]("poke", pokeScopeVariant(sr.SigVariant), disp("poke"), func(ctx context.Context, data any, in any) {
					rt.Yield(siteSignalH)
					rec.record(Invocation{Step: stepID, Signal: "poke", Arg: in})
				}),
			}
			steps = append(steps, schema.NewCallableStepWithSignals[any, any](stepID, input, outputs, sigs, nil, disp(stepID), nil, func(ctx context.Context, _ any, in any) (string, any) {
				return handler(ctx, nil, in)
			}))
		} else if sr.HasSignals {
			sigs := map[string]schema.CallableSignal{
				"poke": schema.NewCallableSignal[*Token, any]("poke", pokeScopeVariant(sr.SigVariant), disp("poke"), func(ctx context.Context, tok *Token, in any) {
					rt.Yield(siteSignalH)
					rec.record(Invocation{Step: stepID, Token: tok, Signal: "poke", Arg: in})
				}),
			}
			var emitters map[string]*schema.SignalSchema
			if sr.Emitter {
				emitters = map[string]*schema.SignalSchema{"note": schema.NewSignalSchema("note", pokeScope(), disp("note"))}
				if sr.SameSignalID {
					// handlers and emitters are separate ID spaces: the same ID in both is legitimate
					emitters["poke"] = schema.NewSignalSchema("poke", pokeScope(), disp("poke out"))
				}
			}
			var init func() *Token
			if sr.WithInit {
				init = func() *Token {
					rt.Yield(siteInit)
					return rec.newToken(stepID)
				}
			}
			steps = append(steps, schema.NewCallableStepWithSignals[*Token, any](stepID, input, outputs, sigs, emitters, disp(stepID), init, handler))
		} else {
			steps = append(steps, schema.NewCallableStep[any](stepID, input, outputs, disp(stepID), func(ctx context.Context, in any) (string, any) {
				return handler(ctx, nil, in)
			}))
		}
	}
	return schema.NewCallableSchema(steps...)
}

// GenPlugin draws a plugin recipe.
func GenPlugin(s Src, rich bool) *PluginRecipe {
	pr := &PluginRecipe{}
	n := 1 + s.Choose("p.nsteps", 3)
	for i := 0; i < n; i++ {
		o := GenOpts{NeedNonce: true, Prefix: fmt.Sprintf("S%d", i), MaxObjects: 2, MaxProps: 3, MaxDepth: 1}
		if rich {
			o.MaxObjects, o.MaxProps, o.MaxDepth = 3, 4, 2
		}
		sr := StepRecipe{ID: fmt.Sprintf("step%d", i), Input: *GenScope(s, o)}
		if s.Choose("p.signals", 2) == 1 {
			sr.HasSignals = true
			sr.WithInit = s.Choose("p.init", 2) == 1
			sr.Emitter = s.Choose("p.emit", 2) == 1
			sr.SameSignalID = sr.Emitter && s.Choose("p.sameid", 2) == 1
			sr.SigVariant = s.Choose("p.sigvariant", 3)
		}
		pr.Steps = append(pr.Steps, sr)
	}
	return pr
}

// RefResult is the in-process reference result of one call.
type RefResult struct {
	OutputID string
	Data     any
	Err      error
	Panic    string
}

// RefCall calls a step in-process on the given (independent) plugin instance.
func RefCall(p *schema.CallableSchema, runID, step string, input any) (res RefResult) {
	defer func() {
		if r := recover(); r != nil {
			res = RefResult{Panic: fmt.Sprint(r), Err: fmt.Errorf("panic: %v", r)}
		}
	}()
	id, data, err := p.CallStep(context.Background(), runID, step, input)
	return RefResult{OutputID: id, Data: data, Err: err}
}

func sortedKeys[V any](m map[string]V) []string {
	ks := make([]string, 0, len(m))
	for k := range m {
		ks = append(ks, k)
	}
	sort.Strings(ks)
	return ks
}
