module verif

go 1.25
