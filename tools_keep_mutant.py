#!/usr/bin/env python3
"""usage: tools_keep_mutant.py <name> <agent worktree> <caught:yes|no|after-strengthening> <checks that catch it> <note>"""
import sys, json, os, shutil, glob
name, aw, caught, checks, note = sys.argv[1:6]
dst = f"/verif/seeded/{name}"
os.makedirs(dst, exist_ok=True)
src = f"{aw}/MUTANT"
for f in glob.glob(src + "/**", recursive=True):
    if os.path.isfile(f):
        rel = os.path.relpath(f, src)
        if rel in ("go.mod",):
            continue
        d = os.path.join(dst, rel)
        os.makedirs(os.path.dirname(d), exist_ok=True)
        # demonstration go files must not be compiled as part of /verif
        if d.endswith(".go"):
            d += ".txt"
        shutil.copy(f, d)
meta = json.load(open(f"{src}/meta.json"))
meta["confirmed_by_me"] = "fresh scratch worktree of /repo HEAD: patch applies, go build ok, existing suites (root module and cmd/arcaflow-codegen) pass with the change, the demonstration fails with the change and passes without it (tools_verify_mutant.sh)"
meta["detected"] = caught
meta["detected_by_checks"] = checks.split(",") if checks else []
meta["what_i_ran"] = f"git -C /repo apply seeded/{name}/patch.diff; ./bin/verifsim check <id> --tier quick; git -C /repo checkout -- .   (tools_run_on_mutant.sh)"
meta["note"] = note
json.dump(meta, open(f"{dst}/meta.json", "w"), indent=1)
print("kept", dst, os.listdir(dst))
