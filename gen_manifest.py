#!/usr/bin/env python3
"""Writes MANIFEST.json from the table below (kept in one place so it stays valid)."""
import json
ENV = "GOFLAGS=-mod=mod GOPROXY=off GOSUMDB=off GOTOOLCHAIN=local"
checks = {
 "C05": dict(cat="exploration", ref="§7 C05", technique="deterministic simulation: real ATP client and server over a simulated fragmenting/coalescing transport under a seeded statement-level scheduler; per-call comparison with an in-process reference",
   text="Seeded search over schedules, transport chunkings and generated plugin schemas/inputs; every Execute result is compared with CallStep on an independent copy; a clean batch is evidence, not proof.",
   note="Trusted: the AST rewriter preserves semantics (the repo's own suite passes on the instrumented copy), testing/synctest's fake clock and quiescence detection, fxamacker/cbor. The reference call sees the CBOR-normalised input. Legacy v1 framing is exercised against a stub v1 plugin (batch c05.v1) that answers with the in-process results of a reference copy and may exit right after its last answer. The transport may deliver the last bytes together with io.EOF. A call that reuses the run ID of a call in flight may be refused; it must not disturb the other call."),
 "C06": dict(cat="exploration", ref="§7 C06", technique="deterministic simulation: seeded and delay-bounded scheduling (exhaustive single-delay sweep over every statement of client and server) with exact deadlock detection on a fake clock",
   text="Random/sticky/PCT schedules plus a sweep that holds back every yield site of atp/client.go and atp/server.go singly (occurrences 1-3) on canonical session histories; a hang is decided exactly (all goroutines durably blocked, no timer pending). sync.WaitGroup is a scheduler-visible shim with the real misuse checks (a released waiter runs when the scheduler picks it). Batch c06.race repeats the mixed sessions in a -race build: an SDK data race on a map is process death.",
   note="Trusted: rewriter, synctest, shim mutex semantics. The peer is the SDK's own server or (c06.peer*) a scripted protocol-conforming v3/v1 peer that also emits signals (also late ones), non-fatal errors and unknown message IDs; the harness drains signal channels as the API asks. Scheduling delays are logical: no fake time passes while a goroutine is held."),
}
checks["C07"] = dict(cat="fault_enumeration", ref="§7 C07", engine="server", technique="deterministic simulation with crash-point enumeration: real RunATPServer vs a scripted hostile client; EOF / read error / garbage at enumerated byte offsets of the client stream crossed with seeded schedules and step behaviours; reference-decoder model of accepted runs",
   text="Grammar-drawn client scripts (valid and invalid messages, arbitrary CBOR, junk) against the real server with generated plugins whose steps succeed, fail, panic or are slow; base scripts are re-run with a fault at every message boundary +-1 and a stride (quick) or at every byte (thorough); the oracle counts terminal messages per run ID against what a reference decoder accepts from the bytes actually delivered, and decides hangs exactly on the fake clock. Batch c07.cancel additionally cancels the context given to RunATPServer (restricted oracle: no panic, no hang, no return while the client is still connected); the rule that the server does not return while its input is open and intact applies to every batch. Batch c07.race repeats the hostile grammar in a -race build (happens-before-neutral scheduler): an SDK data race on a map is the runtime's fatal 'concurrent map read and map write', i.e. process death.",
   note="Trusted: rewriter, synctest, cbor library (also used by the reference decoder), Go's race detector for c07.race, the contract model of 'accepted work-start' stated in DESIGN §7 C07. A panic in a server goroutine is treated as process death. plugin.Run's os.Exit paths and real OS pipes are not simulated.")
checks["C08"] = dict(cat="fault_enumeration", ref="§7 C08", engine="client", technique="deterministic simulation with crash-point enumeration: real ATP client vs a scripted v3/v1 server; EOF / read error / garbage / stall-then-EOF / single flipped byte (stream stays open) at enumerated byte offsets of the server stream, client writes failing independently, crossed with seeded schedules; reference-decoder oracle for fabricated results, exact hang detection",
   text="Generated transcripts (hello with a real self-described schema, work-done, signals, non-fatal/step-fatal/server-fatal errors, unknown IDs, unsupported versions, a schema that does not unserialize) are played reactively by a scripted server; the base transcript is run fault-free and then re-run with each fault kind at every message boundary +-1 and a stride (quick) or every byte (thorough). A success is legitimate only if a well-formed work-done for that run is present in the bytes actually delivered; every call and Close must return (decided exactly on the fake clock).",
   note="Trusted: rewriter, synctest, cbor (also used by the reference decoder). Premise enforced: the server stream ends, errors or garbles; runs where only the client's writes failed while the server stream stayed intact (or was still stalled when Close's 5 s wait expired) are excluded and counted in the evidence.")
checks["C10"] = dict(cat="exploration", ref="§7 C10", engine="hello", technique="deterministic simulation with fault injection into the hello message: structural mutations (delete/retype/rename/re-key/duplicate/re-point/null/extreme) at tape-chosen or systematically swept nodes of a generated plugin description delivered over a fragmenting transport to the real Client.ReadSchema, followed by first-use exercise of whatever schema is accepted",
   text="Seeded search over single and double mutations of generated descriptions plus grammar-free random trees; sweep batches apply every mutation kind at every node (thorough) of base descriptions. Batch c10.scope hands mutated and unmutated scope descriptions to schema.UnserializeScope directly (loading = UnserializeScope + ApplySelf + ValidateReferences). Violation = a panic in ReadSchema / while loading or in any Unserialize/Validate/Serialize/ValidateCompatibility/SelfSerialize on an accepted schema; a fatal stack overflow kills the worker and is attributed to the run by the driver.",
   note="Known finding (not repaired): ValidateCompatibility has no cycle guard - a self-referencing schema compared with itself overflows the stack (fatal); the driver names fatal stack overflows by the recursing SDK methods so that only this one is matched. Trusted: rewriter, synctest. The schedule dimension is degenerate here (one engine goroutine); what is explored is the fault space. Exercise values are generated valid/invalid inputs plus a fixed palette of decoder-producible shapes; this is first-use smoke exercise, not C04's full input domain.")
checks["C09"] = dict(cat="exploration", ref="§7 C09", engine="session", technique="deterministic simulation (replica agreement): the plugin's schema and the engine's copy rebuilt from the hello message carried over a simulated fragmenting transport are compared inside seeded client/server sessions",
   text="RESTRICTED to the hello clause of C09: for generated plugin schemas the copy rebuilt by Client.ReadSchema must describe itself identically to the plugin's own copy, be a describe/rebuild/describe fixed point, and agree with the plugin's copy on every input, output and signal payload of the simulated session.",
   note="Not decided: the direct (no transport) and YAML fixed-point clauses and behavioural equality on inputs never sent in a session - pure clauses outside this technique. Trusted: rewriter, synctest, cbor.")
checks["C11"] = dict(cat="exploration", ref="§7 C11", engine="steps", technique="deterministic simulation: seeded and delay-bounded statement-level scheduling of concurrent CallStep/CallSignal goroutines on one CallableSchema, compared call by call with a sequential reference on a fresh copy",
   text="2-6 goroutines issue step and signal calls for 1-3 run IDs (valid/invalid inputs, unknown IDs, handler misbehaviour, with/without initializer) under random/sticky/PCT schedules and a sweep that holds every statement of schema/step.go, schema.go and signal.go singly (and sampled pairs); oracles: initializer at most once per run ID, all handlers of a run see the same step data, distinct runs distinct data, handler invoked exactly as often and with the same argument as alone, same (outputID, data, error type) as alone, no panic; plus plan-derived expectations that do not depend on the library: unknown step -> BadArgumentError and no handler call, undeclared output ID -> InvalidOutputError, non-conforming data (also for an output without properties) -> error, conforming data -> that output.",
   note="Trusted: rewriter, synctest, shim mutex. The typed-error and input clauses are checked as the reference oracle of the same runs (the call made alone on a fresh copy); error text is not compared, only the outermost SDK error type.")
checks["C12"] = dict(cat="exploration", ref="§7 C12", engine="pure", technique="deterministic simulation of the runtime's map iteration order and of call histories: every range-over-map / MapKeys site of the SDK is routed through a seam whose order is drawn from the seed; histories of operations on one schema instance are compared with fresh instances",
   text="Generated scope schemas receive tape-drawn histories of 1-30 Unserialize/Validate/Serialize/ValidateCompatibility calls; each call is repeated under natural, drawn, reversed and rotated iteration orders (same verdict, equal results), its argument (also non-canonical any-typed values: int, uint8, float32, typed slices) is deep-compared before/after, and the used instance is compared with a freshly built one (verdict, result, self-description).",
   note="Trusted: the rewriter's map-order seam covers all 53 range-over-map and 8 MapKeys sites (counted in the evidence; maps inside third-party libraries are not reordered). Single goroutine; no scheduler is involved. Error text is not compared.")
checks["C15"] = dict(cat="exploration", ref="§7 C15", engine="pure", technique="deterministic simulation of map iteration order on ValidateCompatibility between generated consumer/producer schema pairs",
   text="RESTRICTED: decided = the verdict of consumer.ValidateCompatibility(producer) does not depend on map iteration order (natural, drawn, reversed, rotated orders on identical, rebuilt, single-feature-mutated and unrelated producers) and a verdict is returned (no panic). Reflexivity, compatibility with a schema rebuilt from its own description, and the must-reject rules are evaluated on the same pairs as side oracles.",
   note="Not decided: termination on recursive schema pairs (a stack overflow there is a function of the pair alone; recursive recipes are excluded from the generator). Must-reject expectations are attached to mutations of the root object and of every object reachable from it (references, one-of members, list items, map keys/values); disjoint ranges cover int, float, string and map bounds with every nil/non-nil combination. Trusted: map-order seam coverage as for C12.")
checks["C13"] = dict(cat="exploration", ref="§7 C13", engine="race", technique="deterministic simulation under the race detector: seeded statement-level schedules of 2-16 goroutines on one brand-new schema, with a scheduler whose hand-off is hidden from the detector (one-way happens-before edge to the scheduler only) and shims that keep real mutex edges; result equality against isolated calls",
   text="Trials race first-use paths (unit parser caches, lazily decoded defaults, sub-object default propagation, references) of freshly built, freshly rebuilt and struct-mapped schemas, of the package-level unit definitions (one trial per worker process) and of the step-call and ATP session simulations, in a -race build; a violation is a race report whose two accesses are owned by SDK functions, a result that differs from the same call in isolation, or a panic.",
   note="Trusted: Go's race detector; the happens-before neutrality of the scheduler is self-tested (TestDetectorStillSees: an unsynchronised lazy cache is reported, the same cache under the shim mutex is not). Seam choices come from per-goroutine PRNGs in these trials so that the shared tape is not a hidden synchronisation point. The detector reports a pair of stacks once per process; attribution uses the report counter around each trial.")
checks["C19"] = dict(cat="exploration", ref="§7 C19", engine="codegen", technique="deterministic simulation of map iteration order in the code generator run as a subprocess: the generator built from the working tree gets a seam on its range-over-map sites, and each generated schema document is processed under natural, drawn, reversed and runtime orders, with and without the ignore argument",
   text="Generated YAML schema documents (0-6 objects x 0-6 properties, every type ID, references) are fed to the real generator binary in a fresh directory; exit status and stderr decide totality for both argument forms, byte equality across iteration orders decides determinism, and the parsed output is compared with a model (one struct per non-ignored object, one JSON-tagged typed field per property).",
   note="Trusted: the local map-order seam (2 range sites in gen.go, counted in the evidence), go/parser. Object names include valid identifiers that are type IDs (integer, float, string). Known finding (not repaired): type_id map is emitted as the Go keyword map and makes the generator panic; documents with map-typed properties are confined to the c19.mapkw batch so the rest of the space stays explored.")
not_yet = {
}
na = {
 "C01": "pure function of (schema, raw value): no schedule, clock, fault, history or iteration order in the statement; deciding it is input generation against a round-trip oracle, not simulation (the wire fragment is covered under C05)",
 "C02": "pure acceptance predicate against a reference interpreter of the constraints; nothing for a simulator to schedule or break",
 "C03": "pure predicate over (rule graph, supplied subset); verdict order-independence of the same functions is covered by C12",
 "C04": "totality over an input domain: panics and stack exhaustion are functions of the argument alone; needs input generation plus process supervision, not a scheduler, clock or fault injector",
 "C14": "metamorphic relation between a scope and its inlined twin over inputs; sequential and pure (the order of ApplyNamespace calls is a caller-chosen configuration, not runtime nondeterminism)",
 "C16": "pure numeric/string function (format/parse inverse); concurrent first use of unit definitions is decided under C13",
 "C17": "pure function from (schema, corrupted input) to an error path; no schedule, fault or history in the statement",
 "C18": "pure predicate over Go function signatures and call arguments",
}
pending = {
 "C07": "check not built yet in this revision (planned: scripted hostile client, crash-point enumeration)",
 "C08": "check not built yet in this revision (planned: scripted server, crash-point enumeration)",
 "C09": "check not built yet in this revision (planned: hello-clause replica agreement inside the session simulator)",
 "C10": "check not built yet in this revision (planned: hello-mutation faults against Client.ReadSchema)",
 "C11": "check not built yet in this revision (planned: step/signal schedule simulation)",
 "C12": "check not built yet in this revision (planned: map-order seam + call histories)",
 "C13": "check not built yet in this revision (planned: HB-neutral scheduler under the race detector)",
 "C15": "check not built yet in this revision (planned: map-order seam on compatibility verdicts)",
 "C19": "check not built yet in this revision (planned: code generator subprocess with map-order seam)",
}
import os, sys
built = set(checks)
m = {
 "version": 1,
 "setup_cmd": f"cd /verif && {ENV} go1.26.8 build -o bin/verifsim ./cmd/verifsim && {ENV} ./bin/verifsim warm",
 "hooks": {
   "guard": "none-in-repo (checks instrument a scratch copy of the working tree with /verif/instr; /repo carries no hooks)",
   "enable": "verifsim copies /repo's working tree to a temporary directory, rewrites it (yield points, go->zzsimrt.Go, sync->simsync, select and map-order seams) and builds the harness against it with go1.26.8",
   "baseline_off_cmd": "cd /repo && go test -mod=mod -json -vet=off -count=1 -timeout 25m ./... && cd /repo/cmd/arcaflow-codegen && go test -mod=mod -json -vet=off -count=1 -timeout 25m ./...",
   "source_commits": [],
   "add_only": True,
 },
 "engines": [
   {"name": "client", "path": "harness/engine_client.go", "serves_properties": ["C08", "C06"], "kind_free_text": "real atp client vs scripted v3/v1 server with byte-offset fault injection on the server stream (fault-free healthy transcripts serve C06)"},
   {"name": "hello", "path": "harness/engine_hello.go", "serves_properties": ["C10"], "kind_free_text": "real Client.ReadSchema vs scripted hello with structural mutations; first-use exercise of accepted schemas"},
   {"name": "steps", "path": "harness/engine_steps.go", "serves_properties": ["C11"], "kind_free_text": "concurrent CallStep/CallSignal on the real schema package under the seeded scheduler (no ATP)"},
   {"name": "pure", "path": "harness/engine_pure.go", "serves_properties": ["C12", "C15"], "kind_free_text": "single-goroutine history and map-order simulation on the real schema package"},
   {"name": "race", "path": "harness/engine_race.go", "serves_properties": ["C13"], "kind_free_text": "concurrent schema operations / step calls / ATP sessions in a -race build under the happens-before-neutral scheduler"},
   {"name": "codegen", "path": "harness/engine_codegen.go", "serves_properties": ["C19"], "kind_free_text": "cmd/arcaflow-codegen built with a map-order seam and run as a subprocess per trial"},
   {"name": "server", "path": "harness/engine_server.go", "serves_properties": ["C07"], "kind_free_text": "real atp server vs scripted client with byte-offset fault injection on the client stream"},
   {"name": "session", "path": "harness/session.go", "serves_properties": ["C05", "C06"], "kind_free_text": "real atp client <-> real atp server over simulated pipes under the seeded scheduler (zzsimrt) inside a testing/synctest bubble"},
 ],
 "checks": [],
 "not_applicable": [],
 "notes": "Fixes committed in /repo for genuine defects found by these checks are listed in known_findings.json (status fixed). Replay: ./bin/verifsim replay <file> rebuilds from /repo's working tree.",
}
for pid in sorted(checks):
    c = checks[pid]
    m["checks"].append({
      "property_id": pid,
      "quick_cmd": f"{ENV} ./bin/verifsim check {pid} --tier quick",
      "thorough_cmd": f"{ENV} ./bin/verifsim check {pid} --tier thorough",
      "evidence_file": f"/verif/evidence/{pid}.json",
      "replay_cmd_template": f"{ENV} ./bin/verifsim replay {{path}}",
      "engine": c.get("engine", "session"),
      "level_claimed": {"category": c["cat"], "text": c["text"], "design_ref": c["ref"]},
      "level_note": c["note"],
      "technique": c["technique"],
    })
for pid, r in sorted({**na, **{k: v for k, v in pending.items() if k not in built}}.items()):
    m["not_applicable"].append({"property_id": pid, "reason": r})
json.dump(m, open("/verif/MANIFEST.json", "w"), indent=1)
print("checks:", [c["property_id"] for c in m["checks"]], "na:", [n["property_id"] for n in m["not_applicable"]])
