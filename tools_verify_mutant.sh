#!/bin/bash
# usage: tools_verify_mutant.sh <name> <agent worktree> <demo src (relative to worktree/MUTANT)> <demo dest (relative to repo root)> <test cmd dir (relative)> <go test args...>
# Confirms in a FRESH scratch worktree: patch applies, suites pass with it, demo fails with it and passes without it.
set -u
export GOFLAGS=-mod=mod GOPROXY=off GOSUMDB=off
NAME=$1; AW=$2; DEMOSRC=$3; DEMODST=$4; TDIR=$5; shift 5
W=/tmp/mutv/$NAME
rm -rf $W; git -C /repo worktree prune; git -C /repo worktree add -q --detach $W HEAD || exit 2
cd $W
git apply $AW/MUTANT/patch.diff || { echo "PATCH DOES NOT APPLY"; exit 1; }
echo "== build"; go build ./... && (cd cmd/arcaflow-codegen && go build -o /dev/null .) || { echo BUILD-FAILED; }
echo "== suites with the change"
go test -count=1 ./... 2>&1 | tail -4
(cd cmd/arcaflow-codegen && go test -count=1 ./... 2>&1 | tail -2)
cp $AW/MUTANT/$DEMOSRC $DEMODST
echo "== demo WITH change (expect FAIL)"
(cd $TDIR && go test -count=1 "$@" 2>&1 | tail -6)
git apply -R $AW/MUTANT/patch.diff
echo "== demo WITHOUT change (expect ok)"
(cd $TDIR && go test -count=1 "$@" 2>&1 | tail -3)
cd /; git -C /repo worktree remove --force $W
