#!/usr/bin/env python3
"""Rewrites the mutant table of DESIGN.md (between the markers) from /verif/seeded/*/meta.json."""
import json, glob, os, re
rows = []
for m in sorted(glob.glob('/verif/seeded/*/meta.json')):
    d = json.load(open(m))
    name = os.path.basename(os.path.dirname(m))
    rows.append((name, d.get('property', '?'), d.get('summary', '').replace('|', '/'), d.get('needs', '').replace('|', '/'), d.get('detected', '?'), ','.join(d.get('detected_by_checks', [])), d.get('note', '').replace('|', '/')))
out = ["| change | breaks | what it does | needs, to manifest | caught | by | how |", "|---|---|---|---|---|---|---|"]
for r in rows:
    out.append("| %s | %s | %s | %s | %s | %s | %s |" % (r[0], r[1], r[2][:260], r[3][:260], r[4], r[5], r[6][:300]))
table = "<!-- mutant table begin -->\n" + "\n".join(out) + "\n<!-- mutant table end -->"
p = '/verif/DESIGN.md'
s = open(p).read()
if 'MUTANT_TABLE_PLACEHOLDER' in s:
    s = s.replace('MUTANT_TABLE_PLACEHOLDER', table)
else:
    s = re.sub(r"<!-- mutant table begin -->.*?<!-- mutant table end -->", lambda m: table, s, flags=re.S)
open(p, 'w').write(s)
print(len(rows), "rows")
