module go.flow.arcalot.io/pluginsdk

go 1.25
