// Package simsync replaces package sync in instrumented SDK code: everything
// that blocks durably inside a synctest bubble is re-exported unchanged;
// Mutex, RWMutex, Once and WaitGroup are shims whose contention and wake-ups
// are decided by the simulator's scheduler.
package simsync

import (
	"sync"
	"sync/atomic"

	"go.flow.arcalot.io/pluginsdk/zzsimrt"
)

type (
	Cond      = sync.Cond
	Locker    = sync.Locker
	Map       = sync.Map
	Pool      = sync.Pool
)

// NewCond is sync.NewCond.
func NewCond(l Locker) *Cond { return sync.NewCond(l) }

var (
	siteLock    = zzsimrt.H("sync.Mutex.Lock")
	siteUnlock  = zzsimrt.H("sync.Mutex.Unlock")
	siteRLock   = zzsimrt.H("sync.RWMutex.RLock")
	siteRUnlock = zzsimrt.H("sync.RWMutex.RUnlock")
	siteOnce    = zzsimrt.H("sync.Once.Do")
	siteWGAdd   = zzsimrt.H("sync.WaitGroup.Add")
	siteWGWait  = zzsimrt.H("sync.WaitGroup.Wait")
)

// WaitGroup is a scheduler-visible sync.WaitGroup with the semantics of the real one, including its misuse
// checks: a waiter that has been released runs whenever the scheduler picks it, and - exactly like the real
// implementation, whose woken waiter re-reads the state word - panics if the group was reused (a new Add)
// before it got to return. In the real runtime that window is a few instructions wide on an idle machine and
// arbitrarily wide on a loaded one; here it is a scheduling decision on the tape.
type WaitGroup struct {
	counter int32
	waiters int32
	gen     uint32
}

// Add adds delta to the counter and releases the waiters when it reaches zero.
func (wg *WaitGroup) Add(delta int) {
	zzsimrt.Yield(siteWGAdd)
	v := atomic.AddInt32(&wg.counter, int32(delta))
	w := atomic.LoadInt32(&wg.waiters)
	if v < 0 {
		panic("sync: negative WaitGroup counter")
	}
	if w != 0 && delta > 0 && v == int32(delta) {
		panic("sync: WaitGroup misuse: Add called concurrently with Wait")
	}
	if v > 0 || w == 0 {
		return
	}
	atomic.StoreInt32(&wg.waiters, 0)
	atomic.AddUint32(&wg.gen, 1)
}

// Done decrements the counter.
func (wg *WaitGroup) Done() { wg.Add(-1) }

// Wait blocks until the counter is zero.
func (wg *WaitGroup) Wait() {
	zzsimrt.Yield(siteWGWait)
	if atomic.LoadInt32(&wg.counter) == 0 {
		return
	}
	atomic.AddInt32(&wg.waiters, 1)
	g := atomic.LoadUint32(&wg.gen)
	zzsimrt.ParkUntil(siteWGWait, func() bool { return atomic.LoadUint32(&wg.gen) != g })
	if atomic.LoadInt32(&wg.counter) != 0 || atomic.LoadInt32(&wg.waiters) != 0 {
		panic("sync: WaitGroup is reused before previous Wait has returned")
	}
}

// Mutex is a scheduler-visible mutual exclusion lock. The zero value is an
// unlocked mutex; it may be copied before first use.
type Mutex struct {
	state int32
	hb    sync.Mutex // carries the happens-before edges a real mutex would
}

// Lock locks m; contention is resolved by the scheduler.
func (m *Mutex) Lock() {
	zzsimrt.ParkUntil(siteLock, func() bool { return atomic.LoadInt32(&m.state) == 0 })
	for !atomic.CompareAndSwapInt32(&m.state, 0, 1) {
		// only reachable from unmanaged goroutines racing each other
		zzsimrt.ParkUntil(siteLock, func() bool { return atomic.LoadInt32(&m.state) == 0 })
	}
	m.hb.Lock()
}

// TryLock tries to lock m.
func (m *Mutex) TryLock() bool {
	zzsimrt.Yield(siteLock)
	if atomic.CompareAndSwapInt32(&m.state, 0, 1) {
		m.hb.Lock()
		return true
	}
	return false
}

// Unlock unlocks m.
func (m *Mutex) Unlock() {
	zzsimrt.Yield(siteUnlock)
	if atomic.LoadInt32(&m.state) == 0 {
		panic("sync: unlock of unlocked mutex")
	}
	m.hb.Unlock()
	atomic.StoreInt32(&m.state, 0)
}

// RWMutex is a scheduler-visible reader/writer lock.
type RWMutex struct {
	w       Mutex
	readers int32
	hb      sync.RWMutex
}

func (rw *RWMutex) Lock() {
	rw.w.Lock()
	zzsimrt.ParkUntil(siteLock, func() bool { return atomic.LoadInt32(&rw.readers) == 0 })
	atomic.StoreInt32(&rw.readers, -1)
	rw.hb.Lock()
}

func (rw *RWMutex) Unlock() {
	zzsimrt.Yield(siteUnlock)
	rw.hb.Unlock()
	atomic.StoreInt32(&rw.readers, 0)
	rw.w.Unlock()
}

func (rw *RWMutex) RLock() {
	zzsimrt.ParkUntil(siteRLock, func() bool { return atomic.LoadInt32(&rw.readers) >= 0 && atomic.LoadInt32(&rw.w.state) == 0 })
	atomic.AddInt32(&rw.readers, 1)
	rw.hb.RLock()
}

func (rw *RWMutex) RUnlock() {
	zzsimrt.Yield(siteRUnlock)
	rw.hb.RUnlock()
	atomic.AddInt32(&rw.readers, -1)
}

func (rw *RWMutex) RLocker() Locker { return (*rlocker)(rw) }

type rlocker RWMutex

func (r *rlocker) Lock()   { (*RWMutex)(r).RLock() }
func (r *rlocker) Unlock() { (*RWMutex)(r).RUnlock() }

// Once is sync.Once over the shim mutex.
type Once struct {
	done atomic.Uint32
	m    Mutex
}

func (o *Once) Do(f func()) {
	zzsimrt.Yield(siteOnce)
	if o.done.Load() == 1 {
		return
	}
	o.m.Lock()
	defer o.m.Unlock()
	if o.done.Load() == 0 {
		defer o.done.Store(1)
		f()
	}
}

// OnceFunc is sync.OnceFunc over the shim Once.
func OnceFunc(f func()) func() {
	var once Once
	return func() { once.Do(f) }
}

// OnceValue is sync.OnceValue over the shim Once.
func OnceValue[T any](f func() T) func() T {
	var once Once
	var v T
	return func() T { once.Do(func() { v = f() }); return v }
}

// OnceValues is sync.OnceValues over the shim Once.
func OnceValues[T1, T2 any](f func() (T1, T2)) func() (T1, T2) {
	var once Once
	var v1 T1
	var v2 T2
	return func() (T1, T2) { once.Do(func() { v1, v2 = f() }); return v1, v2 }
}
