package zzsimrt_test

import (
	"io"
	"sync"
	"testing"
	"time"

	rt "go.flow.arcalot.io/pluginsdk/zzsimrt"
	"go.flow.arcalot.io/pluginsdk/zzsimrt/simsync"
)

func workload(res *[]byte, total *int) func(s *rt.Sim) {
	return func(s *rt.Sim) {
		var mu simsync.Mutex
		var wg sync.WaitGroup
		p := rt.NewPipe(rt.PipeConfig{Name: "p", Cap: 0, ReadMax: []int{1, 3, 0}})
		wg.Add(3)
		for i := 0; i < 2; i++ {
			rt.GoNamed("inc", func() {
				defer wg.Done()
				for j := 0; j < 5; j++ {
					rt.Yield(rt.H("inc.loop"))
					mu.Lock()
					*total++
					mu.Unlock()
				}
			})
		}
		rt.GoNamed("writer", func() {
			defer wg.Done()
			time.Sleep(time.Second)
			_, _ = p.Write([]byte("hello world, this is a test"))
			_ = p.CloseWrite()
		})
		b, _ := io.ReadAll(rt.ReadEnd{P: p})
		*res = b
		c1 := make(chan int, 1)
		c2 := make(chan int, 1)
		c1 <- 1
		c2 <- 2
		switch r1, r2 := rt.NewRecv(c1), rt.NewRecv(c2); rt.Select(rt.H("sel"), r1, r2) {
		case 0:
			*total += r1.V
		case 1:
			*total += 10 * r2.V
		}
		wg.Wait()
	}
}

func TestBasic(t *testing.T) {
	hashes := map[uint64]int{}
	for seed := uint64(0); seed < 50; seed++ {
		var h [2]uint64
		for rep := 0; rep < 2; rep++ {
			var res []byte
			total := 0
			out := rt.Run(t, rt.Config{Tape: rt.NewTape(seed, 0)}, workload(&res, &total))
			if out.Deadlock || out.Budget || len(out.Panics) > 0 || out.BubblePanic != "" {
				t.Fatalf("seed %d: %+v", seed, out)
			}
			if string(res) != "hello world, this is a test" {
				t.Fatalf("bad transfer %q", res)
			}
			if total != 11 && total != 30 {
				t.Fatalf("total %d", total)
			}
			if out.FakeElapsed != time.Second {
				t.Fatalf("elapsed %v", out.FakeElapsed)
			}
			h[rep] = out.LogHash
		}
		if h[0] != h[1] {
			t.Fatalf("seed %d nondeterministic", seed)
		}
		hashes[h[0]]++
	}
	t.Logf("distinct schedules: %d", len(hashes))
	if len(hashes) < 40 {
		t.Fatalf("too few distinct schedules")
	}
}

func TestReplay(t *testing.T) {
	var res []byte
	total := 0
	tape := rt.NewTape(7, 3)
	out := rt.Run(t, rt.Config{Tape: tape}, workload(&res, &total))
	total2 := 0
	rp := rt.NewReplayTape(tape.Rec)
	out2 := rt.Run(t, rt.Config{Tape: rp}, workload(&res, &total2))
	if out.LogHash != out2.LogHash || total != total2 || rp.Diverged != 0 {
		t.Fatalf("replay diverged: %v %v %d %d div=%d", out.LogHash, out2.LogHash, total, total2, rp.Diverged)
	}
}

func TestDeadlockAndPanic(t *testing.T) {
	out := rt.Run(t, rt.Config{Tape: rt.NewTape(1, 0)}, func(s *rt.Sim) {
		var mu simsync.Mutex
		c := sync.NewCond(&mu)
		rt.GoNamed("boom", func() { panic("boom") })
		mu.Lock()
		c.Wait()
	})
	if !out.Deadlock || len(out.Blocked) != 1 || len(out.Panics) != 1 || out.Panics[0].Value != "boom" {
		t.Fatalf("%+v", out)
	}
	t.Logf("bubble panic: %q blocked=%+v", out.BubblePanic, out.Blocked)
	// a later run in the same process still works
	var res []byte
	total := 0
	out = rt.Run(t, rt.Config{Tape: rt.NewTape(2, 0)}, workload(&res, &total))
	if out.Deadlock || out.BubblePanic != "" {
		t.Fatalf("%+v", out)
	}
	// mutex deadlock (parked with false predicate)
	out = rt.Run(t, rt.Config{Tape: rt.NewTape(2, 0)}, func(s *rt.Sim) {
		var mu simsync.Mutex
		mu.Lock()
		mu.Lock()
	})
	if !out.Deadlock || !out.Blocked[0].Parked {
		t.Fatalf("%+v", out)
	}
}

func BenchmarkSteps(b *testing.B) {
	// not a real benchmark harness: reports steps/s
}
