// Package zzsimrt is the deterministic-simulation runtime that /verif drops
// into an instrumented scratch copy of the SDK. It is never part of /repo.
//
// Execution model: real goroutines, parked and released one at a time by a
// scheduler goroutine that runs inside a testing/synctest bubble. Every
// decision (who runs next, chunk sizes, map orders, select polling order,
// workload draws) goes through the choice tape, so one integer decides a run
// and a recorded tape replays it.
package zzsimrt

import (
	"fmt"
	"runtime"
	"runtime/debug"
	"sort"
	"strconv"
	"strings"
	"sync"
	"sync/atomic"
	"testing"
	"testing/synctest"
	"time"
	"unsafe"
)

func gptr() uintptr

// G is a managed (simulated) goroutine.
type G struct {
	Name string
	Kind string // Name without the #n counters

	wake    chan struct{}
	site    int
	pred    func() bool
	parked  bool
	held    bool
	dead    bool
	spawns  map[string]int
	seq     int
	started bool
	// Note is free text a harness goroutine may set to describe what it is
	// about to block on; it is printed in deadlock reports.
	Note string
	goid int64
	ptr  uintptr
	// newlyParked is set by park and consumed by the scheduler.
	newlyParked bool
	// rng decides seam choices (map order, select polling) locally when the
	// simulation runs with LocalSeams, so that goroutines of the system under
	// test never touch shared simulator state (see Config.LocalSeams).
	rng *Rand
	// lastStmt is the last instrumented (statement-level or seam) site passed,
	// as opposed to sites inside shims and pipes.
	lastStmt int
}

// PanicEvent is a panic captured in a managed goroutine.
type PanicEvent struct {
	G      string
	Kind   string
	Value  string
	Frames []string // SUT frames, innermost first (function names only)
	Step   int
}

// BlockedG describes a goroutine that was still alive when the run ended.
type BlockedG struct {
	Name   string
	Kind   string
	Site   string // last yield site it passed
	Parked bool   // parked with a false predicate (waiting for a shim resource)
	Note   string
	Wait   string   // runtime wait reason ("sync.Cond.Wait", "chan receive", ...)
	Func   string   // innermost SDK function on its stack ("" if none)
	Frames []string // innermost SDK frames
}

// Outcome is what the scheduler observed.
type Outcome struct {
	Steps       int
	Switches    int
	FakeElapsed time.Duration
	Deadlock    bool // quiescent with live goroutines and nothing to wait for
	Budget      bool // step budget exceeded (infrastructure error, not a verdict)
	Blocked     []BlockedG
	Panics      []PanicEvent
	LogHash     uint64
	SchedSig    uint64 // hash of the sequence of context switches (kind@site -> kind@site)
	Preemptions int
	BubblePanic string
}

// Config of one simulated run.
type Config struct {
	Tape     *Tape
	Strategy Strategy
	MaxSteps int
	Watchdog time.Duration // fake time without progress that means deadlock
	Trace    func(line string)
	// LocalSeams makes seam choices of managed goroutines (map iteration order, select polling order)
	// come from a per-goroutine PRNG derived from one tape value and the goroutine's name, instead of
	// from the shared tape. Race-detector trials use it: a shared tape would be a hidden
	// synchronisation point between every pair of goroutines that iterate a map.
	LocalSeams bool
	// OnPanic is called (on the dying goroutine, after the event was recorded)
	// when a managed goroutine panics; harnesses use it to model process death.
	OnPanic func(ev PanicEvent)
}

// Sim is one simulated execution.
type Sim struct {
	mu        sync.Mutex
	traceBuf  []string // lines queued by managed goroutines, written by the scheduler
	traceN    int
	traceLost int
	all       []*G // live managed goroutines; preallocated, never regrown (see spawn)
	seamSeed  uint64
	schedSync int64 // address used for the goroutine -> scheduler happens-before edge
	notify    chan struct{}
	tape      *Tape
	strat     Strategy
	cfg       Config
	cur       *G
	seq       int

	steps    int
	switches int
	preempt  int
	hash     uint64
	sig      uint64
	panics   []PanicEvent
	start    time.Time

	siteHits map[int]int

	Probes    map[string]int
	SitesSeen map[int]int
	PairsSeen map[uint64]struct{}

	mapHook func(site, n int) []int
}

var active atomic.Pointer[Sim]

// Active returns the running simulation, or nil.
func Active() *Sim { return active.Load() }

const (
	fnvOff   = 14695981039346656037
	fnvPrime = 1099511628211
)

func fnvAdd(h uint64, s string) uint64 {
	for i := 0; i < len(s); i++ {
		h ^= uint64(s[i])
		h *= fnvPrime
	}
	h ^= 0xff
	h *= fnvPrime
	return h
}

func fnvAddInt(h uint64, v int) uint64 {
	u := uint64(v)
	for i := 0; i < 8; i++ {
		h ^= u & 0xff
		h *= fnvPrime
		u >>= 8
	}
	return h
}

//go:norace
func (s *Sim) current() *G {
	p := gptr()
	var g *G
	s.mu.Lock()
	for _, x := range s.all {
		if x.ptr == p {
			g = x
			break
		}
	}
	s.mu.Unlock()
	return g
}

// Managed reports whether the calling goroutine is under scheduler control.
//
//go:norace
func Managed() bool {
	s := active.Load()
	if s == nil {
		return false
	}
	raceOff()
	g := s.current()
	raceOn()
	return g != nil
}

// CurrentName returns the simulated name of the calling goroutine ("" if unmanaged).
//
//go:norace
func CurrentName() string {
	s := active.Load()
	if s == nil {
		return ""
	}
	raceOff()
	g := s.current()
	raceOn()
	if g == nil {
		return ""
	}
	return g.Name
}

// SetNote attaches a note to the calling goroutine (shown when it is found blocked).
//
//go:norace
func SetNote(note string) {
	s := active.Load()
	if s == nil {
		return
	}
	raceOff()
	if g := s.current(); g != nil {
		g.Note = note
	}
	raceOn()
}

// Yield is a scheduling point: the calling goroutine parks until the scheduler
// releases it. It is a no-op outside a simulation or on unmanaged goroutines.
//
//go:norace
func Yield(site int) {
	s := active.Load()
	if s == nil {
		return
	}
	raceOff()
	g := s.current()
	if g != nil {
		s.park(g, site, nil)
	}
	raceOn()
}

// ParkUntil parks the calling goroutine until pred() holds *and* the scheduler
// picks it. pred is evaluated by the scheduler while every goroutine is
// blocked; when the caller resumes it is the only running goroutine and pred
// still holds. On an unmanaged goroutine it spins politely.
//
//go:norace
func ParkUntil(site int, pred func() bool) {
	s := active.Load()
	if s != nil {
		raceOff()
		g := s.current()
		if g != nil {
			s.park(g, site, pred)
			raceOn()
			return
		}
		raceOn()
	}
	for !pred() {
		runtime.Gosched()
		time.Sleep(10 * time.Microsecond)
	}
}

//go:norace
func (s *Sim) park(g *G, site int, pred func() bool) {
	// (called with race synchronisation events disabled) publish everything this goroutine did so far
	// to the scheduler - and only to the scheduler
	raceOn()
	raceReleaseMerge(unsafe.Pointer(&s.schedSync))
	raceOff()
	s.mu.Lock()
	g.site = site
	if site >= 0 && (site < hBase || isHarnessSite(site)) {
		g.lastStmt = site
	}
	g.pred = pred
	g.parked = true
	g.newlyParked = true
	s.mu.Unlock()
	select {
	case s.notify <- struct{}{}:
	default:
	}
	<-g.wake
}

func kindOf(name string) string {
	// strip "#n" counters
	var b strings.Builder
	skip := false
	for i := 0; i < len(name); i++ {
		c := name[i]
		if c == '#' {
			skip = true
			continue
		}
		if skip {
			if c >= '0' && c <= '9' {
				continue
			}
			skip = false
		}
		b.WriteByte(c)
	}
	return b.String()
}

// Go starts a managed goroutine named after its parent and spawn site.
// Outside a simulation it is a plain go statement.
func Go(site int, f func()) {
	s := active.Load()
	if s == nil {
		go f()
		return
	}
	s.spawn(SiteLabel(site), f)
}

// GoNamed starts a managed goroutine with a harness-chosen label.
func GoNamed(label string, f func()) {
	s := active.Load()
	if s == nil {
		go f()
		return
	}
	s.spawn(label, f)
}

//go:norace
func (s *Sim) spawn(label string, f func()) {
	raceOff()
	parent := s.current()
	s.mu.Lock()
	pname := ""
	var n int
	if parent != nil {
		pname = parent.Name + "/"
		if parent.spawns == nil {
			parent.spawns = map[string]int{}
		}
		parent.spawns[label]++
		n = parent.spawns[label]
	} else {
		s.seq++
		n = s.seq
	}
	name := pname + label + "#" + strconv.Itoa(n) // (no fmt here: its pooled buffers synchronise, and synchronisation is switched off)
	g := &G{Name: name, Kind: kindOf(name), wake: make(chan struct{}), site: siteSpawn, lastStmt: siteSpawn}
	if s.cfg.LocalSeams {
		g.rng = NewRand(s.seamSeed, fnvAdd(fnvOff, name))
	}
	if len(s.all) == cap(s.all) {
		s.mu.Unlock()
		raceOn()
		panic("zzsimrt: too many live goroutines in one simulation")
	}
	s.all = append(s.all, g) // within capacity: no reallocation, nothing another goroutine wrote is read
	s.mu.Unlock()
	raceOn()
	go s.goroutineMain(g, f)
}

// goroutineMain is the body of every managed goroutine.
//
//go:norace
func (s *Sim) goroutineMain(g *G, f func()) {
	raceOff()
	p := gptr()
	var id int64
	if DebugStacks {
		id = curGoid()
	}
	s.mu.Lock()
	g.ptr = p
	g.goid = id
	s.mu.Unlock()
	raceOn()
	defer s.exit(g, p)
	raceOff()
	s.park(g, siteSpawn, nil)
	raceOn()
	f()
}

//go:norace
func (s *Sim) exit(g *G, p uintptr) {
	r := recover()
	var ev *PanicEvent
	if r != nil {
		ev = &PanicEvent{G: g.Name, Kind: g.Kind, Value: fmt.Sprint(r), Frames: sutFrames(string(debug.Stack()))}
	}
	raceReleaseMerge(unsafe.Pointer(&s.schedSync))
	raceOff()
	s.mu.Lock()
	if ev != nil {
		ev.Step = s.steps
		s.panics = append(s.panics, *ev)
	}
	g.dead = true
	g.ptr = 0
	hook := s.cfg.OnPanic
	for i, x := range s.all {
		if x == g {
			for j := i; j+1 < len(s.all); j++ {
				s.all[j] = s.all[j+1]
			}
			s.all[len(s.all)-1] = nil
			s.all = s.all[:len(s.all)-1]
			break
		}
	}
	s.mu.Unlock()
	if ev != nil && hook != nil {
		hook(*ev)
	}
	select {
	case s.notify <- struct{}{}:
	default:
	}
	raceOn()
}

// SUTFrames extracts the SDK frames (function names, innermost first) from a stack dump.
func SUTFrames(stack string) []string { return sutFrames(stack) }

// sutFrames extracts function names of SDK frames from a stack dump.
func sutFrames(stack string) []string {
	var out []string
	for _, line := range strings.Split(stack, "\n") {
		if strings.HasPrefix(line, "\t") || line == "" {
			continue
		}
		if i := strings.LastIndex(line, "("); i > 0 {
			line = line[:i]
		}
		if !strings.Contains(line, "go.flow.arcalot.io/pluginsdk/") && !strings.HasPrefix(line, "codegen") {
			continue
		}
		if strings.Contains(line, "/zzsimrt") {
			continue
		}
		line = strings.TrimPrefix(line, "go.flow.arcalot.io/pluginsdk/")
		out = append(out, line)
		if len(out) >= 8 {
			break
		}
	}
	return out
}

// Choose draws in [0,n) from the tape.
//
//go:norace
func (s *Sim) Choose(kind string, n int) int {
	raceOff()
	s.mu.Lock()
	v := s.tape.Choose(kind, n)
	s.mu.Unlock()
	raceOn()
	return v
}

// Choose draws from the active simulation's tape (0 when there is none).
func Choose(kind string, n int) int {
	s := active.Load()
	if s == nil {
		return 0
	}
	return s.Choose(kind, n)
}

// seamChoose draws a seam choice for the calling managed goroutine: from its own PRNG under
// LocalSeams, else from the shared tape.
//
//go:norace
func (s *Sim) seamChoose(kind string, n int) int {
	if n <= 1 {
		return 0
	}
	if s.cfg.LocalSeams {
		raceOff()
		g := s.current()
		raceOn()
		if g != nil && g.rng != nil {
			return g.rng.IntN(n)
		}
	}
	return s.Choose(kind, n)
}

// Probe counts a "this rare condition was hit" event.
//
//go:norace
func Probe(name string) {
	s := active.Load()
	if s == nil {
		return
	}
	raceOff()
	s.mu.Lock()
	s.Probes[name]++
	s.mu.Unlock()
	raceOn()
}

// Tracef adds a line to the event trace (debugging aid; no effect on choices).
func Tracef(format string, a ...any) {
	s := active.Load()
	if s == nil || s.cfg.Trace == nil {
		return
	}
	// Lines from managed goroutines are queued and written by the scheduler: the trace writer is then touched by
	// one goroutine only (the scheduler's hand-offs are invisible to the race detector, so a shared writer would
	// be reported - and would make a -race worker's outcome depend on when the detector notices).
	s.tracePush("    " + fmt.Sprintf(format, a...))
}

//go:norace
func (s *Sim) tracePush(line string) {
	raceOff()
	s.mu.Lock()
	if s.traceN < len(s.traceBuf) {
		s.traceBuf[s.traceN] = line
		s.traceN++
	} else {
		s.traceLost++
	}
	s.mu.Unlock()
	raceOn()
}

// traceTake returns queued line i, or false when the queue is exhausted (and resets it).
//
//go:norace
func (s *Sim) traceTake(i int) (string, bool) {
	s.mu.Lock()
	defer s.mu.Unlock()
	if i < s.traceN {
		l := s.traceBuf[i]
		s.traceBuf[i] = ""
		return l, true
	}
	s.traceN = 0
	return "", false
}

// flushTrace writes the queued lines (scheduler goroutine, or after the run).
func (s *Sim) flushTrace() {
	if s.cfg.Trace == nil {
		return
	}
	for i := 0; ; i++ {
		l, ok := s.traceTake(i)
		if !ok {
			break
		}
		s.cfg.Trace(l)
	}
	if s.traceLost > 0 {
		s.cfg.Trace(fmt.Sprintf("    (%d trace lines lost: queue full)", s.traceLost))
		s.traceLost = 0
	}
}

// Now is the simulated clock relative to the start of the run.
func (s *Sim) Now() time.Duration { return time.Since(s.start) }

// Steps returns the number of scheduler steps so far.
func (s *Sim) StepCount() int { return s.steps }

// Run executes main as the first managed goroutine under the scheduler, inside
// a synctest bubble, and returns what the scheduler observed.
func Run(t *testing.T, cfg Config, main func(s *Sim)) (out Outcome) {
	if cfg.MaxSteps == 0 {
		cfg.MaxSteps = 200000
	}
	if cfg.Watchdog == 0 {
		cfg.Watchdog = 10 * time.Minute
	}
	if cfg.Strategy == nil {
		cfg.Strategy = RandomStrategy{}
	}
	s := &Sim{
		all:       make([]*G, 0, 4096),
		tape:      cfg.Tape,
		strat:     cfg.Strategy,
		cfg:       cfg,
		hash:      fnvOff,
		sig:       fnvOff,
		siteHits:  map[int]int{},
		Probes:    map[string]int{},
		SitesSeen: map[int]int{},
		PairsSeen: map[uint64]struct{}{},
	}
	if cfg.Trace != nil {
		s.traceBuf = make([]string, 8192)
	}
	// The bubble runs on a goroutine of its own: when the race detector reported something during the
	// bubble, the testing package fails the test with FailNow (runtime.Goexit), which must not take the
	// worker's loop with it.
	bubbleDone := make(chan struct{})
	go func() {
		defer close(bubbleDone)
		defer func() {
			if r := recover(); r != nil {
				out.BubblePanic = fmt.Sprint(r)
				if !out.Deadlock {
					// not announced by the scheduler: keep the goroutine dump for diagnosis
					buf := make([]byte, 1<<20)
					out.BubblePanic += "\n" + string(buf[:runtime.Stack(buf, true)])
				}
			}
		}()
		synctest.Test(t, func(t *testing.T) {
			s.notify = make(chan struct{}, 1)
			s.start = time.Now()
			if cfg.LocalSeams {
				s.seamSeed = uint64(cfg.Tape.Choose("seamseed", 1<<30))
			}
			if !active.CompareAndSwap(nil, s) {
				panic("zzsimrt: a simulation is already active in this process")
			}
			defer active.Store(nil)
			s.spawn("main", func() { main(s) })
			s.loop(&out)
			s.flushTrace()
			out.FakeElapsed = time.Since(s.start)
		})
	}()
	<-bubbleDone
	active.CompareAndSwap(s, nil)
	out.Steps = s.steps
	out.Switches = s.switches
	out.Preemptions = s.preempt
	out.LogHash = s.hash
	out.SchedSig = s.sig
	s.mu.Lock()
	out.Panics = append(out.Panics, s.panics...)
	s.mu.Unlock()
	return out
}

// Sim accessors used by harnesses after Run returned.
func (s *Sim) Tape() *Tape { return s.tape }

//go:norace
func (s *Sim) loop(out *Outcome) {
	var elig []*G
	lastProgress := 0
	_ = lastProgress
	for {
		synctest.Wait()
		raceAcquire(unsafe.Pointer(&s.schedSync))
		s.mu.Lock()
		// account for new parks in a deterministic order
		var newParks []*G
		for _, g := range s.all {
			if g.newlyParked {
				g.newlyParked = false
				newParks = append(newParks, g)
			}
		}
		if len(newParks) > 1 {
			sort.Slice(newParks, func(i, j int) bool { return newParks[i].Name < newParks[j].Name })
		}
		for _, g := range newParks {
			if g.site >= 0 {
				s.siteHits[g.site]++
				s.SitesSeen[g.site]++
				s.strat.OnPark(s, g, g.site, s.siteHits[g.site])
			}
		}
		live := len(s.all)
		elig = elig[:0]
		for _, g := range s.all {
			if g.parked && (g.pred == nil || g.pred()) {
				elig = append(elig, g)
			}
		}
		s.mu.Unlock()
		if live == 0 {
			return
		}
		if len(elig) == 0 {
			// Nothing can be released: wait for a timer-driven wake-up or
			// declare deadlock after the watchdog's worth of fake time.
			timer := time.NewTimer(s.cfg.Watchdog)
			fired := false
			select {
			case <-s.notify:
				timer.Stop()
			case <-timer.C:
				fired = true
			}
			if fired {
				synctest.Wait()
				raceAcquire(unsafe.Pointer(&s.schedSync))
				s.mu.Lock()
				n := 0
				for _, g := range s.all {
					if g.parked && (g.pred == nil || g.pred()) {
						n++
					}
				}
				if n == 0 {
					out.Deadlock = true
					out.Blocked = s.blockedList()
				}
				s.mu.Unlock()
				if out.Deadlock {
					return
				}
			}
			continue
		}
		select {
		case <-s.notify:
		default:
		}
		if s.steps >= s.cfg.MaxSteps {
			out.Budget = true
			s.mu.Lock()
			out.Blocked = s.blockedList()
			s.mu.Unlock()
			return
		}
		sort.Slice(elig, func(i, j int) bool { return elig[i].Name < elig[j].Name })
		// candidate 0 is "keep running the current goroutine" when possible
		curIdx := -1
		for i, g := range elig {
			if g == s.cur {
				curIdx = i
				break
			}
		}
		if curIdx > 0 {
			c := elig[curIdx]
			copy(elig[1:curIdx+1], elig[0:curIdx])
			elig[0] = c
		}
		var idx int
		if len(elig) > 1 {
			s.mu.Lock()
			idx = s.tape.ChooseWith("s", len(elig), func(r *Rand) int { return s.strat.Pick(s, elig, curIdx >= 0, r) })
			s.mu.Unlock()
		}
		g := elig[idx]
		s.steps++
		if g != s.cur {
			s.switches++
			if curIdx >= 0 {
				s.preempt++
			}
			fromK, fromS := "", 0
			if s.cur != nil {
				fromK, fromS = s.cur.Kind, s.cur.site
			}
			h := fnvAdd(fnvOff, fromK)
			h = fnvAddInt(h, fromS)
			h = fnvAdd(h, g.Kind)
			h = fnvAddInt(h, g.site)
			s.sig = fnvAddInt(s.sig, int(h))
			if curIdx >= 0 {
				s.PairsSeen[h] = struct{}{}
			}
		}
		s.hash = fnvAdd(s.hash, g.Name)
		s.hash = fnvAddInt(s.hash, g.site)
		if s.cfg.Trace != nil {
			s.flushTrace()
			s.cfg.Trace(fmt.Sprintf("%d %s @%s", s.steps, g.Name, SiteLabel(g.site)))
		}
		s.cur = g
		g.parked = false
		g.held = false
		g.pred = nil
		g.wake <- struct{}{}
	}
}

// Held reports whether a goroutine is currently held back by the delay strategy.
func (g *G) Held() bool { return g.held }

// SetHeld marks a goroutine as held (used by strategies from OnPark).
func (g *G) SetHeld(v bool) { g.held = v }

// Site returns the site the goroutine is parked at.
func (g *G) Site() int { return g.site }

// DebugStacks makes deadlock reports use full goroutine stack dumps (slow).
var DebugStacks = false

// curGoid parses the current goroutine's id from its stack header (once per goroutine).
func curGoid() int64 {
	var buf [64]byte
	n := runtime.Stack(buf[:], false)
	// "goroutine 123 ["
	var id int64
	for i := len("goroutine "); i < n; i++ {
		c := buf[i]
		if c < '0' || c > '9' {
			break
		}
		id = id*10 + int64(c-'0')
	}
	return id
}

// blockedList describes every live managed goroutine using a full stack dump.
// The caller holds s.mu and every goroutine is blocked.
//
//go:norace
func (s *Sim) blockedList() []BlockedG {
	if !DebugStacks {
		var out []BlockedG
		for _, g := range s.all {
			b := BlockedG{Name: g.Name, Kind: g.Kind, Site: SiteLabel(g.site), Parked: g.parked, Note: g.Note, Func: SiteLabel(g.lastStmt)}
			if g.parked {
				b.Wait = "parked:" + SiteLabel(g.site)
			} else {
				b.Wait = "blocked-after:" + SiteLabel(g.site)
			}
			out = append(out, b)
		}
		sort.Slice(out, func(i, j int) bool { return out[i].Name < out[j].Name })
		return out
	}
	buf := make([]byte, 4<<20)
	n := runtime.Stack(buf, true)
	type info struct {
		wait   string
		frames []string
	}
	byID := map[int64]*info{}
	var cur *info
	for _, line := range strings.Split(string(buf[:n]), "\n") {
		if strings.HasPrefix(line, "goroutine ") {
			rest := line[len("goroutine "):]
			var id int64
			i := 0
			for ; i < len(rest) && rest[i] >= '0' && rest[i] <= '9'; i++ {
				id = id*10 + int64(rest[i]-'0')
			}
			cur = &info{}
			byID[id] = cur
			if a := strings.Index(rest, "["); a >= 0 {
				w := rest[a+1:]
				if b := strings.IndexAny(w, ",]"); b >= 0 {
					w = w[:b]
				}
				w = strings.TrimSuffix(w, " (durable)")
				cur.wait = w
			}
			continue
		}
		if cur == nil || line == "" || strings.HasPrefix(line, "\t") {
			continue
		}
		fn := line
		if i := strings.LastIndex(fn, "("); i > 0 {
			fn = fn[:i]
		}
		if strings.HasPrefix(fn, "created by ") {
			continue
		}
		if !strings.Contains(fn, "go.flow.arcalot.io/pluginsdk/") || strings.Contains(fn, "/zzsimrt") {
			continue
		}
		fn = strings.TrimPrefix(fn, "go.flow.arcalot.io/pluginsdk/")
		if len(cur.frames) < 6 {
			cur.frames = append(cur.frames, fn)
		}
	}
	var out []BlockedG
	for _, g := range s.all {
		b := BlockedG{Name: g.Name, Kind: g.Kind, Site: SiteLabel(g.site), Parked: g.parked, Note: g.Note}
		if in := byID[g.goid]; in != nil {
			b.Wait = in.wait
			b.Frames = in.frames
			if len(in.frames) > 0 {
				b.Func = in.frames[0]
			}
		}
		if g.parked {
			b.Wait = "parked:" + SiteLabel(g.site)
		}
		out = append(out, b)
	}
	sort.Slice(out, func(i, j int) bool { return out[i].Name < out[j].Name })
	return out
}
