package zzsimrt

import (
	"fmt"
	"iter"
	"reflect"
	"sort"
)

// ---------------------------------------------------------------- select

// SelCase is one communication clause of a rewritten select statement.
type SelCase interface {
	try() bool
	rcase() reflect.SelectCase
	set(v reflect.Value, ok bool)
}

// RecvCase is `case v, ok := <-c`.
type RecvCase[T any] struct {
	c  <-chan T
	V  T
	OK bool
}

// NewRecv builds a receive clause.
func NewRecv[T any](c <-chan T) *RecvCase[T] { return &RecvCase[T]{c: c} }

func (r *RecvCase[T]) try() bool {
	select {
	case r.V, r.OK = <-r.c:
		return true
	default:
		return false
	}
}
func (r *RecvCase[T]) rcase() reflect.SelectCase {
	return reflect.SelectCase{Dir: reflect.SelectRecv, Chan: reflect.ValueOf(r.c)}
}
func (r *RecvCase[T]) set(v reflect.Value, ok bool) {
	r.OK = ok
	if v.IsValid() {
		x, _ := v.Interface().(T)
		r.V = x
	}
}

// SendCase is `case c <- v`.
type SendCase[T any] struct {
	c chan<- T
	v T
}

// NewSend builds a send clause.
func NewSend[T any](c chan<- T, v T) *SendCase[T] { return &SendCase[T]{c: c, v: v} }

func (s *SendCase[T]) try() bool {
	select {
	case s.c <- s.v:
		return true
	default:
		return false
	}
}
func (s *SendCase[T]) rcase() reflect.SelectCase {
	return reflect.SelectCase{Dir: reflect.SelectSend, Chan: reflect.ValueOf(s.c), Send: reflect.ValueOf(&s.v).Elem()}
}
func (s *SendCase[T]) set(reflect.Value, bool) {}

// Select implements a select statement without default: the ready cases are
// polled in an order drawn from the tape; when none is ready it blocks on all
// of them (then the schedule decides which becomes ready first).
func Select(site int, cases ...SelCase) int {
	return doSelect(site, false, cases)
}

// SelectDefault implements a select statement with a default clause; it
// returns -1 for default.
func SelectDefault(site int, cases ...SelCase) int {
	return doSelect(site, true, cases)
}

func doSelect(site int, hasDefault bool, cases []SelCase) int {
	Yield(site)
	n := len(cases)
	s := active.Load()
	managed := s != nil && Managed()
	// polling order
	order := make([]int, n)
	for i := range order {
		order[i] = i
	}
	if managed && n > 1 {
		for i := n - 1; i > 0; i-- {
			j := s.seamChoose("sel", i+1)
			order[i], order[j] = order[j], order[i]
		}
	}
	for _, i := range order {
		if cases[i].try() {
			return i
		}
	}
	if hasDefault {
		return -1
	}
	rc := make([]reflect.SelectCase, n)
	for i, c := range cases {
		rc[i] = c.rcase()
	}
	chosen, v, ok := reflect.Select(rc)
	cases[chosen].set(v, ok)
	// we were woken by another goroutine's operation: become schedulable again
	Yield(site)
	return chosen
}

// ---------------------------------------------------------------- maps

// MapHook, when set, decides iteration orders for goroutines that are not
// managed by a scheduler (single-goroutine checks). It receives the site and
// the number of keys and returns a permutation of [0,n) over the canonical
// (sorted) key order, or nil for the identity.
var MapHook func(site int, n int) []int

// MapSeamOff disables canonicalisation entirely (runtime order) when true.
var MapSeamOff bool

func permFor(site int, n int) []int {
	if n <= 1 {
		return nil
	}
	if s := active.Load(); s != nil && Managed() {
		if s.mapHook != nil {
			return s.mapHook(site, n)
		}
		p := make([]int, n)
		for i := range p {
			p[i] = i
		}
		for i := n - 1; i > 0; i-- {
			j := s.seamChoose("map", i+1)
			p[i], p[j] = p[j], p[i]
		}
		return p
	}
	if MapHook != nil {
		return MapHook(site, n)
	}
	return nil
}

// SetMapHook installs a per-simulation map order hook.
func (s *Sim) SetMapHook(h func(site, n int) []int) { s.mapHook = h }

func lessAny(a, b any) bool {
	va, vb := reflect.ValueOf(a), reflect.ValueOf(b)
	if !va.IsValid() || !vb.IsValid() {
		return !va.IsValid() && vb.IsValid()
	}
	ta, tb := va.Type().String(), vb.Type().String()
	if ta != tb {
		return ta < tb
	}
	switch va.Kind() {
	case reflect.Int, reflect.Int8, reflect.Int16, reflect.Int32, reflect.Int64:
		return va.Int() < vb.Int()
	case reflect.Uint, reflect.Uint8, reflect.Uint16, reflect.Uint32, reflect.Uint64, reflect.Uintptr:
		return va.Uint() < vb.Uint()
	case reflect.Float32, reflect.Float64:
		return va.Float() < vb.Float()
	case reflect.String:
		return va.String() < vb.String()
	case reflect.Bool:
		return !va.Bool() && vb.Bool()
	}
	return fmt.Sprintf("%#v", a) < fmt.Sprintf("%#v", b)
}

// MapOrder iterates a map in an order chosen by the simulation: keys are put
// in canonical order and then permuted by the tape / hook.
func MapOrder[M ~map[K]V, K comparable, V any](site int, m M) iter.Seq2[K, V] {
	return func(yield func(K, V) bool) {
		if MapSeamOff || (MapHook == nil && active.Load() == nil) {
			for k, v := range m {
				if !yield(k, v) {
					return
				}
			}
			return
		}
		keys := make([]K, 0, len(m))
		for k := range m {
			keys = append(keys, k)
		}
		sort.Slice(keys, func(i, j int) bool { return lessAny(keys[i], keys[j]) })
		perm := permFor(site, len(keys))
		for i := range keys {
			k := keys[i]
			if perm != nil {
				k = keys[perm[i]]
			}
			v, ok := m[k]
			if !ok {
				continue // deleted during iteration
			}
			if !yield(k, v) {
				return
			}
		}
	}
}

// OrderKeys reorders the result of reflect.Value.MapKeys.
func OrderKeys(site int, keys []reflect.Value) []reflect.Value {
	if MapSeamOff || (MapHook == nil && active.Load() == nil) {
		return keys
	}
	sort.Slice(keys, func(i, j int) bool {
		return lessAny(keyIface(keys[i]), keyIface(keys[j]))
	})
	perm := permFor(site, len(keys))
	if perm == nil {
		return keys
	}
	out := make([]reflect.Value, len(keys))
	for i := range keys {
		out[i] = keys[perm[i]]
	}
	return out
}

func keyIface(v reflect.Value) any {
	if v.CanInterface() {
		return v.Interface()
	}
	return v.String()
}
