package zzsimrt

// Strategy decides, in generate mode, which eligible goroutine runs next.
// elig[0] is the current goroutine when curFirst is true, the rest is sorted
// by name. Whatever it returns is recorded on the tape, so replay never needs
// the strategy.
type Strategy interface {
	OnPark(s *Sim, g *G, site int, occurrence int)
	Pick(s *Sim, elig []*G, curFirst bool, r *Rand) int
	Describe() string
}

// RandomStrategy picks uniformly.
type RandomStrategy struct{}

func (RandomStrategy) OnPark(*Sim, *G, int, int) {}
func (RandomStrategy) Pick(_ *Sim, elig []*G, _ bool, r *Rand) int {
	return r.IntN(len(elig))
}
func (RandomStrategy) Describe() string { return "random" }

// StickyStrategy keeps the current goroutine with probability P (in 1/1000).
type StickyStrategy struct{ PerMille int }

func (StickyStrategy) OnPark(*Sim, *G, int, int) {}
func (st StickyStrategy) Pick(_ *Sim, elig []*G, curFirst bool, r *Rand) int {
	if curFirst && r.IntN(1000) < st.PerMille {
		return 0
	}
	return r.IntN(len(elig))
}
func (st StickyStrategy) Describe() string { return "sticky" }

// PCTStrategy: random priorities with Depth priority change points.
type PCTStrategy struct {
	Depth    int
	EstSteps int
	prio     map[string]int
	points   map[int]bool
	low      int
	init     bool
}

func (p *PCTStrategy) OnPark(*Sim, *G, int, int) {}
func (p *PCTStrategy) Pick(s *Sim, elig []*G, curFirst bool, r *Rand) int {
	if !p.init {
		p.init = true
		p.prio = map[string]int{}
		p.points = map[int]bool{}
		est := p.EstSteps
		if est <= 0 {
			est = 2000
		}
		for i := 0; i < p.Depth; i++ {
			p.points[r.IntN(est)] = true
		}
	}
	for _, g := range elig {
		if _, ok := p.prio[g.Name]; !ok {
			p.prio[g.Name] = 1000 + r.IntN(1000000)
		}
	}
	if p.points[s.steps] && s.cur != nil {
		p.low--
		p.prio[s.cur.Name] = p.low
	}
	best := 0
	for i, g := range elig {
		if p.prio[g.Name] > p.prio[elig[best].Name] {
			best = i
		}
	}
	return best
}
func (p *PCTStrategy) Describe() string { return "pct" }

// DelayPoint holds back the goroutine that reaches Site for the Occ-th time.
type DelayPoint struct {
	Site int
	Occ  int
}

// DelayStrategy is delay-bounded scheduling: run deterministically (keep the
// current goroutine, else lowest name) except that a goroutine reaching one of
// Points is held until nothing else can run or MaxHold steps pass. With
// Noise > 0, that many per mille of the other picks are uniformly random.
type DelayStrategy struct {
	Points  []DelayPoint
	MaxHold int
	Noise   int
	heldAt  map[*G]int
	Fired   int
}

func (d *DelayStrategy) OnPark(s *Sim, g *G, site int, occ int) {
	for _, p := range d.Points {
		if p.Site == site && (p.Occ == occ || p.Occ == 0) {
			if d.heldAt == nil {
				d.heldAt = map[*G]int{}
			}
			g.held = true
			d.heldAt[g] = s.steps
			d.Fired++
		}
	}
}

func (d *DelayStrategy) Pick(s *Sim, elig []*G, curFirst bool, r *Rand) int {
	maxHold := d.MaxHold
	if maxHold <= 0 {
		maxHold = 5000
	}
	var free []int
	for i, g := range elig {
		if g.held && s.steps-d.heldAt[g] > maxHold {
			g.held = false
		}
		if !g.held {
			free = append(free, i)
		}
	}
	if len(free) == 0 {
		return 0
	}
	if d.Noise > 0 && r.IntN(1000) < d.Noise {
		return free[r.IntN(len(free))]
	}
	return free[0]
}
func (d *DelayStrategy) Describe() string { return "delay" }
