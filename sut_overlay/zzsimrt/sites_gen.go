package zzsimrt

// SiteTable is overwritten by the rewriter in instrumented copies.
var SiteTable = []string{}

// SiteYield[i] is true when site i is a statement-level yield point.
var SiteYield = []bool{}
