package zzsimrt

import (
	"encoding/json"
	"fmt"
)

// Rand is the PRNG all generated choices come from (xoshiro256**). It is
// implemented here, in functions the race detector does not instrument,
// because the scheduler's own bookkeeping must stay invisible to it.
type Rand struct {
	s [4]uint64
}

// NewRand seeds a generator.
//
//go:norace
func NewRand(a, b uint64) *Rand {
	r := &Rand{}
	x := a
	for i := range r.s {
		x += 0x9e3779b97f4a7c15
		r.s[i] = splitmix(x ^ b)
		b = b*6364136223846793005 + 1442695040888963407
	}
	return r
}

//go:norace
func rotl(x uint64, k uint) uint64 { return (x << k) | (x >> (64 - k)) }

// Uint64 returns the next value.
//
//go:norace
func (r *Rand) Uint64() uint64 {
	res := rotl(r.s[1]*5, 7) * 9
	t := r.s[1] << 17
	r.s[2] ^= r.s[0]
	r.s[3] ^= r.s[1]
	r.s[1] ^= r.s[2]
	r.s[0] ^= r.s[3]
	r.s[2] ^= t
	r.s[3] = rotl(r.s[3], 45)
	return res
}

// IntN returns a value in [0,n).
//
//go:norace
func (r *Rand) IntN(n int) int {
	if n <= 1 {
		return 0
	}
	// rejection sampling keeps the distribution exact
	un := uint64(n)
	limit := (^uint64(0) / un) * un
	for {
		v := r.Uint64()
		if v < limit {
			return int(v % un)
		}
	}
}

// Choice is one recorded nondeterministic decision.
type Choice struct {
	K string // kind
	N int    // number of alternatives
	V int    // value chosen
}

// MarshalJSON writes a choice as a compact triple.
func (c Choice) MarshalJSON() ([]byte, error) {
	return []byte(fmt.Sprintf("[%q,%d,%d]", c.K, c.N, c.V)), nil
}

// UnmarshalJSON reads the compact triple.
func (c *Choice) UnmarshalJSON(b []byte) error {
	var raw []json.RawMessage
	if err := json.Unmarshal(b, &raw); err != nil {
		return err
	}
	if len(raw) != 3 {
		return fmt.Errorf("choice must have 3 elements")
	}
	if err := json.Unmarshal(raw[0], &c.K); err != nil {
		return err
	}
	if err := json.Unmarshal(raw[1], &c.N); err != nil {
		return err
	}
	return json.Unmarshal(raw[2], &c.V)
}

// Tape is the sequence of all choices of a run. In generate mode values come
// from a PCG seeded from (seed, run index); in replay mode from a recorded
// tape, with "value mod n" when n changed and 0 when the tape is exhausted.
type Tape struct {
	Rec    []Choice
	replay []Choice
	pos    int
	rng    *Rand
	Replay bool
	// Diverged counts replayed choices whose kind or n differed from the record.
	Diverged int
	// KeepRec can be cleared to stop recording (long sweeps that never replay).
	NoRec bool
}

//go:norace
func splitmix(x uint64) uint64 {
	x += 0x9e3779b97f4a7c15
	z := x
	z = (z ^ (z >> 30)) * 0xbf58476d1ce4e5b9
	z = (z ^ (z >> 27)) * 0x94d049bb133111eb
	return z ^ (z >> 31)
}

// NewTape creates a generating tape for run number idx of a seed.
func NewTape(seed uint64, idx uint64) *Tape {
	a := splitmix(seed ^ 0x5851f42d4c957f2d)
	b := splitmix(a + idx*0x9e3779b97f4a7c15 + 1)
	return &Tape{rng: NewRand(a^idx, b)}
}

// NewReplayTape creates a tape that replays recorded choices.
func NewReplayTape(rec []Choice) *Tape {
	return &Tape{replay: rec, Replay: true}
}

// Rng exposes the PRNG (nil in replay mode); only for strategy code called via ChooseWith.
func (t *Tape) Rng() *Rand { return t.rng }

// Choose draws uniformly in [0,n).
//
//go:norace
func (t *Tape) Choose(kind string, n int) int {
	return t.ChooseWith(kind, n, nil)
}

// ChooseWith draws in [0,n); in generate mode gen (if not nil) decides the
// value (it may use the PRNG), in replay mode the record decides.
//
//go:norace
func (t *Tape) ChooseWith(kind string, n int, gen func(r *Rand) int) int {
	if n <= 1 {
		return 0
	}
	var v int
	if t.Replay {
		if t.pos < len(t.replay) {
			c := t.replay[t.pos]
			if c.K != kind || c.N != n {
				t.Diverged++
			}
			v = c.V
			if v < 0 {
				v = 0
			}
			v %= n
		}
		t.pos++
	} else if gen != nil {
		v = gen(t.rng)
		if v < 0 || v >= n {
			panic(fmt.Sprintf("zzsimrt: strategy returned %d for n=%d", v, n))
		}
	} else {
		v = t.rng.IntN(n)
	}
	if !t.NoRec {
		t.Rec = append(t.Rec, Choice{kind, n, v})
	}
	return v
}

// Chance returns true with probability num/den; value 0 (the shrink target) means false.
func (t *Tape) Chance(kind string, num, den int) bool {
	if num <= 0 {
		return false
	}
	if num >= den {
		return true
	}
	// v in [0,den): true iff v >= den-num, so that 0 is always "false".
	return t.Choose(kind, den) >= den-num
}

// Pos returns the number of choices consumed so far (replay) or recorded (generate).
func (t *Tape) Pos() int {
	if t.Replay {
		return t.pos
	}
	return len(t.Rec)
}
