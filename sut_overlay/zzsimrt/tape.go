package zzsimrt

import (
	"encoding/json"
	"fmt"
	"math/rand/v2"
)

// Rand is the PRNG all generated choices come from.
type Rand = rand.Rand

// Choice is one recorded nondeterministic decision.
type Choice struct {
	K string // kind
	N int    // number of alternatives
	V int    // value chosen
}

// MarshalJSON writes a choice as a compact triple.
func (c Choice) MarshalJSON() ([]byte, error) {
	return []byte(fmt.Sprintf("[%q,%d,%d]", c.K, c.N, c.V)), nil
}

// UnmarshalJSON reads the compact triple.
func (c *Choice) UnmarshalJSON(b []byte) error {
	var raw []json.RawMessage
	if err := json.Unmarshal(b, &raw); err != nil {
		return err
	}
	if len(raw) != 3 {
		return fmt.Errorf("choice must have 3 elements")
	}
	if err := json.Unmarshal(raw[0], &c.K); err != nil {
		return err
	}
	if err := json.Unmarshal(raw[1], &c.N); err != nil {
		return err
	}
	return json.Unmarshal(raw[2], &c.V)
}

// Tape is the sequence of all choices of a run. In generate mode values come
// from a PCG seeded from (seed, run index); in replay mode from a recorded
// tape, with "value mod n" when n changed and 0 when the tape is exhausted.
type Tape struct {
	Rec    []Choice
	replay []Choice
	pos    int
	rng    *rand.Rand
	Replay bool
	// Diverged counts replayed choices whose kind or n differed from the record.
	Diverged int
	// KeepRec can be cleared to stop recording (long sweeps that never replay).
	NoRec bool
}

func splitmix(x uint64) uint64 {
	x += 0x9e3779b97f4a7c15
	z := x
	z = (z ^ (z >> 30)) * 0xbf58476d1ce4e5b9
	z = (z ^ (z >> 27)) * 0x94d049bb133111eb
	return z ^ (z >> 31)
}

// NewTape creates a generating tape for run number idx of a seed.
func NewTape(seed uint64, idx uint64) *Tape {
	a := splitmix(seed ^ 0x5851f42d4c957f2d)
	b := splitmix(a + idx*0x9e3779b97f4a7c15 + 1)
	return &Tape{rng: rand.New(rand.NewPCG(a^idx, b))}
}

// NewReplayTape creates a tape that replays recorded choices.
func NewReplayTape(rec []Choice) *Tape {
	return &Tape{replay: rec, Replay: true}
}

// Rng exposes the PRNG (nil in replay mode); only for strategy code called via ChooseWith.
func (t *Tape) Rng() *rand.Rand { return t.rng }

// Choose draws uniformly in [0,n).
func (t *Tape) Choose(kind string, n int) int {
	return t.ChooseWith(kind, n, nil)
}

// ChooseWith draws in [0,n); in generate mode gen (if not nil) decides the
// value (it may use the PRNG), in replay mode the record decides.
func (t *Tape) ChooseWith(kind string, n int, gen func(r *Rand) int) int {
	if n <= 1 {
		return 0
	}
	var v int
	if t.Replay {
		if t.pos < len(t.replay) {
			c := t.replay[t.pos]
			if c.K != kind || c.N != n {
				t.Diverged++
			}
			v = c.V
			if v < 0 {
				v = 0
			}
			v %= n
		}
		t.pos++
	} else if gen != nil {
		v = gen(t.rng)
		if v < 0 || v >= n {
			panic(fmt.Sprintf("zzsimrt: strategy returned %d for n=%d", v, n))
		}
	} else {
		v = t.rng.IntN(n)
	}
	if !t.NoRec {
		t.Rec = append(t.Rec, Choice{kind, n, v})
	}
	return v
}

// Chance returns true with probability num/den; value 0 (the shrink target) means false.
func (t *Tape) Chance(kind string, num, den int) bool {
	if num <= 0 {
		return false
	}
	if num >= den {
		return true
	}
	// v in [0,den): true iff v >= den-num, so that 0 is always "false".
	return t.Choose(kind, den) >= den-num
}

// Pos returns the number of choices consumed so far (replay) or recorded (generate).
func (t *Tape) Pos() int {
	if t.Replay {
		return t.pos
	}
	return len(t.Rec)
}
