//go:build race

package zzsimrt_test

import (
	"sync"
	"testing"

	rt "go.flow.arcalot.io/pluginsdk/zzsimrt"
	"go.flow.arcalot.io/pluginsdk/zzsimrt/simsync"
)

type lazy struct {
	cache map[string]int
	mu    simsync.Mutex
}

func (l *lazy) get(k string, locked bool) int {
	rt.Yield(rt.H("lazy.get"))
	if locked {
		l.mu.Lock()
		defer l.mu.Unlock()
	}
	if l.cache == nil {
		rt.Yield(rt.H("lazy.fill"))
		l.cache = map[string]int{"a": 1}
	}
	rt.Yield(rt.H("lazy.read"))
	return l.cache[k]
}

// TestDetectorStillSees: an unsynchronised lazy cache raced by managed goroutines must be reported,
// the same cache under the shim mutex must not (the scheduler hand-off must be invisible, the shim
// mutex must carry real happens-before edges).
func TestDetectorStillSees(t *testing.T) {
	// The testing package fails a test during which the detector reported; run the racy part in a subtest
	// whose failure is expected.
	before := rt.RaceErrors()
	for seed := uint64(0); seed < 20; seed++ {
		rt.Run(t, rt.Config{Tape: rt.NewTape(seed, 0), LocalSeams: true}, func(s *rt.Sim) {
			l := &lazy{}
			var wg sync.WaitGroup
			for i := 0; i < 3; i++ {
				wg.Add(1)
				rt.GoNamed("w", func() { defer wg.Done(); l.get("a", true) })
			}
			wg.Wait()
		})
	}
	if n := rt.RaceErrors() - before; n != 0 {
		t.Fatalf("locked variant reported %d races", n)
	}
	t.Run("racy", func(st *testing.T) {
		before := rt.RaceErrors()
		for seed := uint64(0); seed < 20; seed++ {
			rt.Run(st, rt.Config{Tape: rt.NewTape(seed, 0), LocalSeams: true}, func(s *rt.Sim) {
				l := &lazy{}
				var wg sync.WaitGroup
				for i := 0; i < 3; i++ {
					wg.Add(1)
					rt.GoNamed("w", func() { defer wg.Done(); l.get("a", false) })
				}
				wg.Wait()
			})
		}
		n := rt.RaceErrors() - before
		st.Logf("racy variant: %d reports", n)
		if n == 0 {
			t.Errorf("the race detector is blind under the scheduler")
		}
	})
}
