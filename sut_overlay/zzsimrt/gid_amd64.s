#include "textflag.h"

// func gptr() uintptr
TEXT ·gptr(SB),NOSPLIT,$0-8
	MOVQ (TLS), AX
	MOVQ AX, ret+0(FP)
	RET
