package zzsimrt

import (
	"errors"
	"io"
	"sync"
	"time"
)

// PipeConfig are the transport knobs of one direction, drawn per run.
type PipeConfig struct {
	Name     string
	Cap      int           // 0 = rendezvous (Write returns when every byte was consumed, like io.Pipe)
	ReadMax  []int         // candidate limits for the bytes returned by one Read (0 = unlimited); one is drawn per Read
	WriteMax []int         // candidate sizes of the pieces a Write is delivered in (0 = whole); one is drawn per piece
	Latency  time.Duration // fake time a piece spends on the wire (the writer waits)
	// EOFWithData: the Read that delivers the last bytes of the stream reports the end of the stream in the same
	// call (n > 0, io.EOF), as the io.Reader contract allows and files, sockets and buffered readers do
	EOFWithData bool
}

// Fault kinds applied to the reader's view of the stream at a byte offset.
const (
	FaultNone    = ""
	FaultEOF     = "eof"
	FaultIOErr   = "ioerr"
	FaultGarbage = "garbage"
	FaultStall   = "stall" // no data for StallFor fake time, then EOF
	FaultFlip    = "flip"  // the byte at offset At is XOR-ed with Mask; the stream goes on
)

// PipeFault is a fault placed at byte offset At of the stream.
type PipeFault struct {
	Kind     string
	At       int64
	Junk     []byte        // for garbage: bytes delivered instead of the rest of the stream
	StallFor time.Duration // for stall
	Mask     byte          // for flip
}

// ErrInjected is the I/O error returned by ioerr faults.
var ErrInjected = errors.New("simulated I/O error")

// Pipe is a unidirectional in-simulation byte stream.
type Pipe struct {
	cfg PipeConfig
	mu  sync.Mutex

	buf      []byte
	wclosed  bool
	rclosed  bool
	written  int64 // bytes accepted from writers
	consumed int64 // bytes handed to readers (of the original stream)

	fault      PipeFault
	faultFired bool
	junkPos    int
	wfaultAt   int64 // Write fails (short count + error) once this many bytes were accepted; <0 = never
	wfaultHit  bool
	// readerGone is set when a terminal read fault (EOF, error, end of junk) has
	// fired: whatever the writer sends from then on goes nowhere, so its writes
	// fail like writes to a closed pipe instead of blocking for ever.
	readerGone bool

	// observations
	Record        []byte // every byte accepted from writers, in order
	WriteCalls    int
	ReadCalls     int
	inflight      int
	MaxInflight   int // >1 means two Write calls overlapped in this direction
	EOFsWithData  int
	FragmentReads int // reads that returned less than was available or split a Write
	Coalesced     int // reads that returned bytes of more than one Write
	writeEnds     []int64
	OnWrite       func(p []byte) // harness hook, called with each Write's bytes before delivery
}

var (
	sitePipeRead   = H("pipe.Read")
	sitePipeReadW  = H("pipe.Read.wait")
	sitePipeWrite  = H("pipe.Write")
	sitePipeWriteW = H("pipe.Write.wait")
	sitePipeClose  = H("pipe.Close")
)

// NewPipe creates a pipe.
func NewPipe(cfg PipeConfig) *Pipe { return &Pipe{cfg: cfg, fault: PipeFault{At: -1}, wfaultAt: -1} }

// SetWriteFault makes Write return a short count and ErrInjected at byte offset at.
func (p *Pipe) SetWriteFault(at int64) { p.mu.Lock(); p.wfaultAt = at; p.mu.Unlock() }

// WriteFaultFired reports whether the write fault hit a Write.
func (p *Pipe) WriteFaultFired() bool { p.mu.Lock(); defer p.mu.Unlock(); return p.wfaultHit }

// SetFault installs a fault on the reader's view.
func (p *Pipe) SetFault(f PipeFault) { p.mu.Lock(); p.fault = f; p.mu.Unlock() }

// FaultFired reports whether the fault actually affected a Read.
func (p *Pipe) FaultFired() bool { p.mu.Lock(); defer p.mu.Unlock(); return p.faultFired }

// ReadState tells how far the reader got: bytes consumed, whether the writer has closed its end, whether a read
// fault has fired.
func (p *Pipe) ReadState() (consumed int64, writerClosed bool, faultFired bool) {
	p.mu.Lock()
	defer p.mu.Unlock()
	return p.consumed, p.wclosed, p.faultFired
}

// Written returns the number of bytes accepted so far.
func (p *Pipe) Written() int64 { p.mu.Lock(); defer p.mu.Unlock(); return p.written }

// Consumed returns the number of bytes of the original stream handed to readers.
func (p *Pipe) Consumed() int64 { p.mu.Lock(); defer p.mu.Unlock(); return p.consumed }

func (p *Pipe) draw(kind string, opts []int) int {
	if len(opts) == 0 {
		return 0
	}
	if len(opts) == 1 {
		return opts[0]
	}
	return opts[Choose(kind, len(opts))]
}

func (p *Pipe) space() int {
	if p.cfg.Cap == 0 {
		if len(p.buf) == 0 {
			return 1 << 30
		}
		return 0
	}
	return p.cfg.Cap - len(p.buf)
}

// Write implements io.Writer.
func (p *Pipe) Write(b []byte) (int, error) {
	Yield(sitePipeWrite)
	p.mu.Lock()
	p.WriteCalls++
	p.inflight++
	if p.inflight > p.MaxInflight {
		p.MaxInflight = p.inflight
	}
	hook := p.OnWrite
	Tracef("pipe %s write off=%d n=%d by %s", p.cfg.Name, p.written, len(b), CurrentName())
	p.mu.Unlock()
	defer func() { p.mu.Lock(); p.inflight--; p.mu.Unlock() }()
	if hook != nil {
		hook(b)
	}
	n := 0
	for n < len(b) {
		ParkUntil(sitePipeWriteW, func() bool {
			p.mu.Lock()
			defer p.mu.Unlock()
			return p.rclosed || p.wclosed || p.readerGone || p.space() > 0
		})
		p.mu.Lock()
		if p.wclosed || p.rclosed || p.readerGone {
			p.mu.Unlock()
			return n, io.ErrClosedPipe
		}
		p.mu.Unlock()
		piece := len(b) - n
		if m := p.draw("wr", p.cfg.WriteMax); m > 0 && m < piece {
			piece = m
		}
		if p.cfg.Latency > 0 && n == 0 {
			time.Sleep(p.cfg.Latency)
			Yield(sitePipeWriteW)
		}
		p.mu.Lock()
		if p.wclosed || p.rclosed {
			p.mu.Unlock()
			return n, io.ErrClosedPipe
		}
		if sp := p.space(); sp < piece {
			piece = sp
		}
		if p.wfaultAt >= 0 && p.written+int64(piece) > p.wfaultAt {
			piece = int(p.wfaultAt - p.written)
			if piece < 0 {
				piece = 0
			}
			if piece > 0 {
				p.buf = append(p.buf, b[n:n+piece]...)
				p.Record = append(p.Record, b[n:n+piece]...)
				p.written += int64(piece)
				n += piece
			}
			p.wfaultHit = true
			p.mu.Unlock()
			return n, ErrInjected
		}
		if piece > 0 {
			p.buf = append(p.buf, b[n:n+piece]...)
			p.Record = append(p.Record, b[n:n+piece]...)
			p.written += int64(piece)
			n += piece
		}
		p.mu.Unlock()
	}
	p.mu.Lock()
	p.writeEnds = append(p.writeEnds, p.written)
	p.mu.Unlock()
	if p.cfg.Cap == 0 {
		// rendezvous: wait until the reader took everything
		ParkUntil(sitePipeWriteW, func() bool {
			p.mu.Lock()
			defer p.mu.Unlock()
			return p.rclosed || p.wclosed || p.readerGone || len(p.buf) == 0
		})
		p.mu.Lock()
		left := len(p.buf)
		closed := p.rclosed || p.readerGone
		p.mu.Unlock()
		if left > 0 && closed {
			return n - left, io.ErrClosedPipe
		}
	}
	return n, nil
}

// Read implements io.Reader.
func (p *Pipe) Read(b []byte) (int, error) {
	Yield(sitePipeRead)
	if len(b) == 0 {
		return 0, nil
	}
	for {
		ParkUntil(sitePipeReadW, func() bool {
			p.mu.Lock()
			defer p.mu.Unlock()
			if p.rclosed || p.wclosed || len(p.buf) > 0 {
				return true
			}
			return p.fault.Kind != FaultNone && p.fault.Kind != FaultFlip && p.fault.At >= 0 && p.consumed >= p.fault.At
		})
		p.mu.Lock()
		p.ReadCalls++
		if p.rclosed {
			p.mu.Unlock()
			return 0, io.ErrClosedPipe
		}
		// fault at the current offset?
		if p.fault.Kind != FaultNone && p.fault.Kind != FaultFlip && p.fault.At >= 0 && p.consumed >= p.fault.At {
			f := p.fault
			p.faultFired = true
			switch f.Kind {
			case FaultEOF:
				p.buf = nil
				p.readerGone = true
				p.mu.Unlock()
				return 0, io.EOF
			case FaultIOErr:
				p.buf = nil
				p.readerGone = true
				p.mu.Unlock()
				return 0, ErrInjected
			case FaultStall:
				p.buf = nil
				p.readerGone = true
				p.mu.Unlock()
				time.Sleep(f.StallFor)
				Yield(sitePipeReadW)
				return 0, io.EOF
			case FaultGarbage:
				p.buf = nil
				p.readerGone = true
				if p.junkPos >= len(f.Junk) {
					p.mu.Unlock()
					return 0, io.EOF
				}
				n := copy(b, f.Junk[p.junkPos:])
				if m := p.draw("rd", p.cfg.ReadMax); m > 0 && m < n {
					n = m
				}
				p.junkPos += n
				p.mu.Unlock()
				return n, nil
			}
		}
		if len(p.buf) == 0 {
			if p.wclosed {
				p.mu.Unlock()
				return 0, io.EOF
			}
			p.mu.Unlock()
			continue
		}
		avail := len(p.buf)
		n := avail
		if len(b) < n {
			n = len(b)
		}
		p.mu.Unlock()
		if m := p.draw("rd", p.cfg.ReadMax); m > 0 && m < n {
			n = m
		}
		p.mu.Lock()
		if n > len(p.buf) {
			n = len(p.buf)
		}
		if p.fault.Kind != FaultNone && p.fault.Kind != FaultFlip && p.fault.At >= 0 && p.consumed+int64(n) > p.fault.At {
			n = int(p.fault.At - p.consumed)
			if n == 0 {
				p.mu.Unlock()
				continue
			}
		}
		copy(b, p.buf[:n])
		if p.fault.Kind == FaultFlip && p.fault.At >= p.consumed && p.fault.At < p.consumed+int64(n) {
			b[p.fault.At-p.consumed] ^= p.fault.Mask
			p.faultFired = true
		}
		Tracef("pipe %s read off=%d n=%d of %d avail (buf %d) by %s", p.cfg.Name, p.consumed, n, avail, len(b), CurrentName())
		p.buf = p.buf[n:]
		if len(p.buf) == 0 {
			p.buf = nil
		}
		start := p.consumed
		p.consumed += int64(n)
		if n < avail {
			p.FragmentReads++
		}
		for _, e := range p.writeEnds {
			if e > start && e < p.consumed {
				p.Coalesced++
				break
			}
		}
		if p.cfg.EOFWithData && n > 0 {
			if p.fault.Kind == FaultEOF && p.fault.At >= 0 && p.consumed >= p.fault.At {
				p.faultFired = true
				p.buf = nil
				p.readerGone = true
				p.EOFsWithData++
				p.mu.Unlock()
				return n, io.EOF
			}
			if p.fault.Kind == FaultNone && len(p.buf) == 0 && p.wclosed {
				p.EOFsWithData++
				p.mu.Unlock()
				return n, io.EOF
			}
		}
		p.mu.Unlock()
		return n, nil
	}
}

// CloseWrite ends the stream (reader sees EOF after draining).
func (p *Pipe) CloseWrite() error {
	Yield(sitePipeClose)
	p.mu.Lock()
	p.wclosed = true
	p.mu.Unlock()
	return nil
}

// CloseRead closes the reading side (writers get io.ErrClosedPipe, pending reads return an error).
func (p *Pipe) CloseRead() error {
	Yield(sitePipeClose)
	p.mu.Lock()
	p.rclosed = true
	p.mu.Unlock()
	return nil
}

// WriteEnds returns the stream offsets at which Write calls ended (message boundaries).
func (p *Pipe) WriteEnds() []int64 {
	p.mu.Lock()
	defer p.mu.Unlock()
	return append([]int64(nil), p.writeEnds...)
}

// Closed reports (write side closed, read side closed).
func (p *Pipe) Closed() (bool, bool) { p.mu.Lock(); defer p.mu.Unlock(); return p.wclosed, p.rclosed }

// ReadEnd / WriteEnd adapt a pipe to io.ReadCloser / io.WriteCloser.
type ReadEnd struct{ P *Pipe }

func (r ReadEnd) Read(b []byte) (int, error) { return r.P.Read(b) }
func (r ReadEnd) Close() error               { return r.P.CloseRead() }

type WriteEnd struct{ P *Pipe }

func (w WriteEnd) Write(b []byte) (int, error) { return w.P.Write(b) }
func (w WriteEnd) Close() error                { return w.P.CloseWrite() }

// Duplex is one side of a bidirectional channel (io.Reader+io.Writer+io.Closer).
type Duplex struct {
	In  *Pipe // this side reads from In
	Out *Pipe // this side writes to Out
}

func (d Duplex) Read(b []byte) (int, error)  { return d.In.Read(b) }
func (d Duplex) Write(b []byte) (int, error) { return d.Out.Write(b) }

// Close closes both directions as seen from this side.
func (d Duplex) Close() error {
	_ = d.Out.CloseWrite()
	return d.In.CloseRead()
}

// KillWrite / KillRead close a side without a scheduling point (process death).
func (p *Pipe) KillWrite() { p.mu.Lock(); p.wclosed = true; p.mu.Unlock() }
func (p *Pipe) KillRead()  { p.mu.Lock(); p.rclosed = true; p.mu.Unlock() }
