//go:build race

package zzsimrt

import (
	"runtime"
	"unsafe"
)

// RaceBuild reports whether the binary was built with the race detector.
const RaceBuild = true

func raceOff() { runtime.RaceDisable() }
func raceOn()  { runtime.RaceEnable() }

// RaceErrors returns the number of data races the detector has reported so far in this process.
func RaceErrors() int { return runtime.RaceErrors() }

// raceReleaseMerge / raceAcquire give the scheduler a one-way happens-before edge from every goroutine
// that parked (so that it may read their state), without ever creating an edge back.
func raceReleaseMerge(p unsafe.Pointer) { runtime.RaceReleaseMerge(p) }
func raceAcquire(p unsafe.Pointer)      { runtime.RaceAcquire(p) }
