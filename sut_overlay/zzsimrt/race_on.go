//go:build race

package zzsimrt

import "runtime"

// RaceBuild reports whether the binary was built with the race detector.
const RaceBuild = true

func raceOff() { runtime.RaceDisable() }
func raceOn()  { runtime.RaceEnable() }
