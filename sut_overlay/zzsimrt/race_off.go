//go:build !race

package zzsimrt

// RaceBuild reports whether the binary was built with the race detector.
const RaceBuild = false

func raceOff() {}
func raceOn()  {}
