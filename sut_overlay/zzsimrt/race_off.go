//go:build !race

package zzsimrt

import "unsafe"

// RaceBuild reports whether the binary was built with the race detector.
const RaceBuild = false

func raceOff() {}
func raceOn()  {}

// RaceErrors returns the number of data races the detector has reported so far in this process.
func RaceErrors() int { return 0 }

func raceReleaseMerge(p unsafe.Pointer) {}
func raceAcquire(p unsafe.Pointer)      {}
