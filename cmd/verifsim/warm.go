package main

import (
	"fmt"
	"os"
	"path/filepath"
)

func doWarm() int {
	for _, v := range []struct {
		flavour string
		race    bool
	}{{"atp", false}, {"schema", true}} {
		work, err := os.MkdirTemp("", "verifsim-warm-")
		if err != nil {
			fmt.Fprintln(os.Stderr, err)
			return 2
		}
		prep, err := prepare(work, v.flavour)
		if err == nil {
			err = buildHarness(prep, v.race, filepath.Join(work, "h.test"))
		}
		os.RemoveAll(work)
		if err != nil {
			fmt.Fprintln(os.Stderr, "warm:", err)
			return 2
		}
	}
	fmt.Println("warm: ok")
	return 0
}
