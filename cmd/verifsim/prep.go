package main

import (
	"crypto/sha256"
	"encoding/hex"
	"encoding/json"
	"fmt"
	"io"
	"io/fs"
	"os"
	"os/exec"
	"path/filepath"
	"sort"
	"strings"

	"verif/instr"
)

// repoDir is the repository whose working tree is checked: /repo, unless VERIF_REPO names a snapshot
// (used only for background exploration runs started with `vp run --with-repo`).
var repoDir = func() string {
	if d := os.Getenv("VERIF_REPO"); d != "" {
		return d
	}
	return "/repo"
}()

const (
	goCmd   = "go1.26.8"
	sutMod  = "go.flow.arcalot.io/pluginsdk"
	harnMod = "verifharness"
)

// verifDir is the directory the framework lives in: the working directory when it looks like one
// (so that a snapshot started with `vp run` uses its own files), else /verif.
var verifDir = func() string {
	if wd, err := os.Getwd(); err == nil {
		if _, err := os.Stat(filepath.Join(wd, "harness", "engine.go")); err == nil {
			return wd
		}
	}
	return "/verif"
}()

func goEnv() []string {
	env := os.Environ()
	env = append(env, "GOFLAGS=-mod=mod", "GOPROXY=off", "GOSUMDB=off", "GOTOOLCHAIN=local", "CGO_ENABLED=1")
	return env
}

func copyFile(src, dst string) error {
	in, err := os.Open(src)
	if err != nil {
		return err
	}
	defer in.Close()
	if err := os.MkdirAll(filepath.Dir(dst), 0o755); err != nil {
		return err
	}
	out, err := os.Create(dst)
	if err != nil {
		return err
	}
	if _, err := io.Copy(out, in); err != nil {
		out.Close()
		return err
	}
	return out.Close()
}

// copyTree copies the files of src into dst, skipping .git and binaries.
func copyTree(src, dst string, skip func(rel string, d fs.DirEntry) bool) error {
	return filepath.WalkDir(src, func(path string, d fs.DirEntry, err error) error {
		if err != nil {
			return err
		}
		rel, _ := filepath.Rel(src, path)
		if rel == "." {
			return nil
		}
		if d.Name() == ".git" {
			if d.IsDir() {
				return filepath.SkipDir
			}
			return nil
		}
		if skip != nil && skip(rel, d) {
			if d.IsDir() {
				return filepath.SkipDir
			}
			return nil
		}
		if d.IsDir() {
			return os.MkdirAll(filepath.Join(dst, rel), 0o755)
		}
		if !d.Type().IsRegular() {
			return nil
		}
		return copyFile(path, filepath.Join(dst, rel))
	})
}

// treeHash hashes the Go sources and module files below the given roots.
func treeHash(roots ...string) (string, error) {
	h := sha256.New()
	for _, root := range roots {
		var files []string
		err := filepath.WalkDir(root, func(path string, d fs.DirEntry, err error) error {
			if err != nil {
				return err
			}
			if d.IsDir() {
				if d.Name() == ".git" {
					return filepath.SkipDir
				}
				return nil
			}
			n := d.Name()
			if strings.HasSuffix(n, ".go") || strings.HasSuffix(n, ".s") || n == "go.mod" || n == "go.sum" {
				files = append(files, path)
			}
			return nil
		})
		if err != nil {
			return "", err
		}
		sort.Strings(files)
		for _, f := range files {
			b, err := os.ReadFile(f)
			if err != nil {
				return "", err
			}
			rel, _ := filepath.Rel(root, f)
			fmt.Fprintf(h, "%s\x00%d\x00", rel, len(b))
			h.Write(b)
		}
	}
	return hex.EncodeToString(h.Sum(nil))[:24], nil
}

// yieldSets: which files get a yield before every statement, per build flavour.
var yieldSets = map[string][]string{
	// ATP session checks: all of atp plus the step/signal plumbing the server calls into
	"atp":     {"atp/*.go", "schema/schema.go", "schema/step.go", "schema/signal.go"},
	"codegen": {},
	// schema-level concurrency checks
	"schema": {"atp/*.go", "schema/*.go"},
}

type prepInfo struct {
	CodegenBin string
	Dir        string
	SutDir     string
	HarnDir    string
	TreeHash   string
	Sites      []instr.Site
	Warnings   []string
	Counts     map[string]int
}

// prepare builds an instrumented scratch copy of /repo's working tree plus the harness module.
func prepare(dir string, flavour string) (*prepInfo, error) {
	sut := filepath.Join(dir, "sut")
	harn := filepath.Join(dir, "harness")
	if err := os.MkdirAll(sut, 0o755); err != nil {
		return nil, err
	}
	err := copyTree(repoDir, sut, func(rel string, d fs.DirEntry) bool {
		if d.IsDir() {
			return false
		}
		n := d.Name()
		// only what a build needs
		return !(strings.HasSuffix(n, ".go") || n == "go.mod" || n == "go.sum" || strings.HasSuffix(n, ".yaml") || strings.HasSuffix(n, ".yml") || strings.HasSuffix(n, ".json"))
	})
	if err != nil {
		return nil, fmt.Errorf("copy repo: %w", err)
	}
	if err := copyTree(filepath.Join(verifDir, "sut_overlay", "zzsimrt"), filepath.Join(sut, "zzsimrt"), func(rel string, d fs.DirEntry) bool {
		return strings.HasSuffix(d.Name(), "_test.go")
	}); err != nil {
		return nil, fmt.Errorf("copy runtime: %w", err)
	}
	th, err := treeHash(sut)
	if err != nil {
		return nil, err
	}
	res, err := instr.Run(instr.Options{Root: sut, Pkgs: []string{"schema", "atp", "plugin"}, YieldAll: yieldSets[flavour], GoCmd: goCmd})
	if err != nil {
		return nil, err
	}
	if err := instr.WriteSiteTable(sut, res); err != nil {
		return nil, err
	}
	// harness module
	if err := copyTree(filepath.Join(verifDir, "harness"), harn, func(rel string, d fs.DirEntry) bool {
		return d.Name() == "go.mod" || d.Name() == "go.sum"
	}); err != nil {
		return nil, fmt.Errorf("copy harness: %w", err)
	}
	gomod := fmt.Sprintf("module %s\n\ngo 1.25\n\nrequire (\n\t%s v0.0.0\n\tgithub.com/fxamacker/cbor/v2 v2.7.0\n\tgo.arcalot.io/log/v2 v2.2.0\n\tgopkg.in/yaml.v3 v3.0.1\n)\n\nreplace %s => %s\n", harnMod, sutMod, sutMod, sut)
	if err := os.WriteFile(filepath.Join(harn, "go.mod"), []byte(gomod), 0o644); err != nil {
		return nil, err
	}
	if err := copyFile(filepath.Join(repoDir, "go.sum"), filepath.Join(harn, "go.sum")); err != nil {
		return nil, err
	}
	info := &prepInfo{Dir: dir, SutDir: sut, HarnDir: harn, TreeHash: th, Sites: res.Sites, Warnings: res.Warnings, Counts: res.Counts}
	if flavour == "codegen" {
		// the code generator is a module of its own: map-order seam only, implemented by a file of package main
		cg := filepath.Join(sut, "cmd", "arcaflow-codegen")
		cres, err := instr.Run(instr.Options{Root: cg, Pkgs: []string{"."}, GoCmd: goCmd, LocalSeam: true})
		if err != nil {
			return nil, fmt.Errorf("instrument codegen: %w", err)
		}
		if err := copyFile(filepath.Join(verifDir, "sut_overlay", "zz_seam_main.go.txt"), filepath.Join(cg, "zz_seam.go")); err != nil {
			return nil, err
		}
		info.CodegenBin = filepath.Join(dir, "codegen.bin")
		cmd := exec.Command(goCmd, "build", "-o", info.CodegenBin, ".")
		cmd.Dir = cg
		cmd.Env = goEnv()
		if b, err := cmd.CombinedOutput(); err != nil {
			return nil, fmt.Errorf("codegen build failed: %v\n%s", err, b)
		}
		for k, v := range cres.Counts {
			info.Counts["codegen_"+k] = v
		}
		info.Warnings = append(info.Warnings, cres.Warnings...)
	}
	b, _ := json.MarshalIndent(info, "", " ")
	_ = os.WriteFile(filepath.Join(dir, "prep.json"), b, 0o644)
	return info, nil
}

// buildHarness compiles the harness test binary.
func buildHarness(p *prepInfo, race bool, out string) error {
	args := []string{"test", "-c", "-o", out}
	if race {
		args = append(args, "-race")
	}
	args = append(args, ".")
	cmd := exec.Command(goCmd, args...)
	cmd.Dir = p.HarnDir
	cmd.Env = goEnv()
	b, err := cmd.CombinedOutput()
	if err != nil {
		return fmt.Errorf("harness build failed: %v\n%s", err, b)
	}
	return nil
}
