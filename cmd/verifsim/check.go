package main

import (
	"bufio"
	"bytes"
	"encoding/json"
	"fmt"
	"os"
	"os/exec"
	"path/filepath"
	"regexp"
	"sort"
	"strconv"
	"strings"
	"sync"
	"time"
)

// Violation mirrors harness.Violation.
type Violation struct {
	Property  string `json:"property"`
	Class     string `json:"class"`
	Signature string `json:"signature"`
	Detail    string `json:"detail"`
}

// RunRecord mirrors harness.RunRecord.
type RunRecord struct {
	Run        uint64         `json:"run"`
	Batch      string         `json:"batch"`
	Outcome    string         `json:"outcome"`
	Reason     string         `json:"reason,omitempty"`
	Violations []Violation    `json:"violations,omitempty"`
	Steps      int            `json:"steps"`
	Switches   int            `json:"switches"`
	Preempt    int            `json:"preempt"`
	FakeMs     int64          `json:"fake_ms"`
	SchedSig   string         `json:"sig"`
	LogHash    string         `json:"log_hash"`
	Faults     map[string]int `json:"faults,omitempty"`
	Probes     map[string]int `json:"probes,omitempty"`
	Features   []string       `json:"features,omitempty"`
	Strategy   string         `json:"strategy,omitempty"`
	Sites      []int          `json:"sites,omitempty"`
	PairHashes []uint64       `json:"pair_hashes,omitempty"`
	Sample     any            `json:"sample,omitempty"`
	ReplayFile string         `json:"replay_file,omitempty"`
	TapeLen    int            `json:"tape_len"`
	Nontrivial bool           `json:"nontrivial"`
}

// Job mirrors harness.Job.
type Job struct {
	Property   string          `json:"property"`
	Batch      string          `json:"batch"`
	Mode       string          `json:"mode"`
	Seed       uint64          `json:"seed"`
	From       uint64          `json:"from"`
	To         uint64          `json:"to"`
	Out        string          `json:"out"`
	Replay     string          `json:"replay,omitempty"`
	ReplayDir  string          `json:"replay_dir,omitempty"`
	MaxViol    int             `json:"max_violations,omitempty"`
	Trace      string          `json:"trace,omitempty"`
	Extra      json.RawMessage `json:"extra,omitempty"`
	NoMinimise bool            `json:"no_minimise,omitempty"`
	Known      []Violation     `json:"known,omitempty"`
	SubMod     int             `json:"sub_mod,omitempty"`
	SubRem     int             `json:"sub_rem,omitempty"`
}

// Batch is one block of runs of a check.
type Batch struct {
	Name  string
	Count uint64
	Extra any
	// PerSite multiplies Count by the number of sweep points (computed from the site table)
	Sweep *SweepSpec
	// Race: this batch runs in a second harness binary built with -race (batch names end in ".race")
	Race bool
	// Start is the first run index (so that two batches of one engine configuration use different base runs)
	Start uint64
}

// replayBatch reads the batch name out of a replay file.
func replayBatch(path string) string {
	var m struct {
		Batch string `json:"batch"`
	}
	if b, err := os.ReadFile(path); err == nil {
		_ = json.Unmarshal(b, &m)
	}
	return m.Batch
}

// raceBatch tells whether a batch of a property runs in the -race binary.
func raceBatch(spec *CheckSpec, batch string) bool {
	return spec.Race || strings.HasSuffix(batch, ".race")
}

// SweepSpec describes an exhaustive single-delay sweep.
type SweepSpec struct {
	Files   []string `json:"files"`
	Occ     []int    `json:"occ"`
	History int      `json:"history"`
	Pairs   bool     `json:"pairs"`
	Stride  int      `json:"-"` // quick tier: every Stride-th point
}

// CheckSpec describes how a property is checked.
type CheckSpec struct {
	ID        string
	Flavour   string
	Race      bool
	Level     string
	Quick     []Batch
	Thorough  []Batch
	Rule      string
	Real      []string
	Stub      []string
	Assume    []string
	WorkerCap time.Duration
}

var atpReal = []string{"atp client (atp/client.go)", "atp server (atp/server.go)", "schema package", "fxamacker/cbor", "context, reflect, regexp", "plugin step/signal plumbing (schema/step.go, schema/signal.go)"}
var commonStub = []string{"sync.Mutex/RWMutex/Once/WaitGroup -> scheduler-visible shims (simsync; WaitGroup keeps the real misuse checks)", "transport -> simulated pipe (zzsimrt.Pipe)", "clock -> testing/synctest fake clock", "step/signal handlers and initializers -> harness code"}

var specs = map[string]*CheckSpec{
	"C06": {
		ID: "C06", Flavour: "atp", Level: "exploration",
		Quick: []Batch{
			{Name: "c06.serial", Count: 6000},
			{Name: "c06.mixed", Count: 6000},
			{Name: "c06.sweep", Sweep: &SweepSpec{Files: []string{"atp/client.go", "atp/server.go"}, Occ: []int{1, 2, 3}, History: 4, Stride: 1}},
			{Name: "c06.peer", Count: 4000},
			{Name: "c06.peerv1", Count: 1000},
			{Name: "c06.race", Count: 600},
			{Name: "c06.blank", Count: 2500},
		},
		Thorough: []Batch{
			{Name: "c06.serial", Count: 150000},
			{Name: "c06.mixed", Count: 250000},
			{Name: "c06.sweep", Sweep: &SweepSpec{Files: []string{"atp/client.go", "atp/server.go", "schema/step.go", "schema/schema.go", "schema/signal.go"}, Occ: []int{1, 2, 3, 4, 5, 6}, History: 24, Stride: 1}},
			{Name: "c06.sweep", Count: 60000, Sweep: &SweepSpec{Files: []string{"atp/client.go", "atp/server.go"}, Occ: []int{1, 2, 3}, History: 8, Pairs: true}},
			{Name: "c06.peer", Count: 200000},
			{Name: "c06.peerv1", Count: 40000},
			{Name: "c06.race", Count: 30000},
			{Name: "c06.blank", Count: 80000},
		},
		Rule: "each run = one seeded session (real client vs real server over simulated pipes) under one scheduling strategy; batch c06.blank adds calls that name no step (the server's run-ID-less step-fatal answer is fanned out to every call in flight); batch c06.race repeats the mixed sessions in a -race build and reports SDK data races on maps (process death); distinct = distinct schedule signature (hash of the sequence of context switches kind@site->kind@site); non-trivial = at least one preemption of a runnable goroutine",
		Real: atpReal, Stub: commonStub,
		Assume: []string{"the peer is the SDK's own server (healthy by construction) or, in the c06.peer batches, a scripted protocol-conforming v3/v1 peer that also emits signals, non-fatal errors and unknown message IDs", "harness drains signalsFromStep and closes signalsToStep as the API documentation asks", "scheduling delays are logical (no fake time passes while a goroutine is held)"},
	},
	"C07": {
		ID: "C07", Flavour: "atp", Level: "fault_enumeration",
		Quick: []Batch{
			{Name: "c07.valid", Count: 2500},
			{Name: "c07.steps", Count: 2500},
			{Name: "c07.hostile", Count: 3000},
			{Name: "c07.garbage", Count: 2500},
			{Name: "c07.unknownsig", Count: 600},
			{Name: "c07.anydata", Count: 600},
			{Name: "c07.cancel", Count: 1500},
			{Name: "c07.crash", Count: 48, Extra: map[string]any{"every_byte": false, "stride": 8}},
			{Name: "c07.race", Count: 1200},
		},
		Thorough: []Batch{
			{Name: "c07.valid", Count: 100000},
			{Name: "c07.steps", Count: 100000},
			{Name: "c07.hostile", Count: 150000},
			{Name: "c07.garbage", Count: 100000},
			{Name: "c07.unknownsig", Count: 20000},
			{Name: "c07.anydata", Count: 20000},
			{Name: "c07.cancel", Count: 60000},
			{Name: "c07.crash", Count: 400, Extra: map[string]any{"every_byte": true}},
			{Name: "c07.race", Count: 40000},
		},
		Rule:   "each run = the real RunATPServer with a generated plugin against a scripted client drawn from a grammar of valid and invalid behaviour, under one seeded schedule; crash batches re-run a base script with end-of-input / read error / garbage at every enumerated byte offset of the client stream (thorough: every offset) plus output-side faults; batch c07.cancel also cancels the context given to RunATPServer (before it starts or after 1 ms .. 70 s of fake time) and then judges only panics, hangs and a return while the client is still connected; in every batch the server must not return while its input is open and intact; batch c07.race repeats the hostile grammar in a -race build and reports SDK data races on maps (process death); distinct = schedule signature x fault point; non-trivial = a fault fired or a runnable goroutine was preempted",
		Real:   []string{"atp server (atp/server.go)", "schema package incl. step/signal plumbing", "fxamacker/cbor"},
		Stub:   append([]string{"atp client -> scripted client (canonical CBOR encoder of the harness)"}, commonStub...),
		Assume: []string{"accepted work-start = well-formed envelope of type 1 with non-empty run and step IDs and decodable body, as decided by the harness's reference decoder on the bytes actually delivered", "a panic in any server goroutine is process death (descriptors closed)"},
	},
	"C08": {
		ID: "C08", Flavour: "atp", Level: "fault_enumeration",
		Quick: []Batch{
			{Name: "c08.v3", Count: 4000},
			{Name: "c08.v1", Count: 2000},
			{Name: "c08.hello", Count: 1500},
			{Name: "c08.fatal", Count: 2500},
			{Name: "c08.crash", Count: 16, Extra: map[string]any{"every_byte": false, "stride": 96}},
			{Name: "c08.crashv1", Count: 8, Extra: map[string]any{"every_byte": false, "stride": 96}},
		},
		Thorough: []Batch{
			{Name: "c08.v3", Count: 200000},
			{Name: "c08.v1", Count: 60000},
			{Name: "c08.hello", Count: 40000},
			{Name: "c08.fatal", Count: 100000},
			// every byte offset x every fault kind for a few base transcripts, a stride of 16 for many more
			// (one base transcript is 8 000 - 20 000 bytes, i.e. up to 100 000 fault points of ~25 000 scheduler steps each when every byte is taken)
			{Name: "c08.crash", Count: 2, Extra: map[string]any{"every_byte": true}},
			{Name: "c08.crash", Count: 32, Start: 2, Extra: map[string]any{"every_byte": false, "stride": 32}},
			{Name: "c08.crashv1", Count: 1, Extra: map[string]any{"every_byte": true}},
			{Name: "c08.crashv1", Count: 12, Start: 1, Extra: map[string]any{"every_byte": false, "stride": 32}},
		},
		Rule:   "each run = the real ATP client against a scripted server playing a generated v3 or v1 transcript (hello with a real self-described schema, work-done, signals, non-fatal / step-fatal / server-fatal errors, unknown message IDs) under one seeded schedule, with the server->client stream cut (EOF), failing (read error), garbled or stalled-then-ended at a byte offset and, in a fraction of runs, the client->server writes failing independently; crash batches first run the base transcript fault-free and then re-run it with each fault kind at every message boundary +-1 and a stride (thorough: every byte offset for 2 + 1 base transcripts, every 32nd for 32 + 12 more) plus one-byte flips of every message ID into every other; distinct = schedule signature x fault point; non-trivial = a fault fired or a runnable goroutine was preempted",
		Real:   []string{"atp client (atp/client.go)", "schema.UnserializeSchema on the received hello", "fxamacker/cbor"},
		Stub:   append([]string{"atp server -> scripted server (reactive transcript, canonical CBOR)"}, commonStub...),
		Assume: []string{"premise: the server stream ends, errors or garbles; runs in which only the client's writes failed while the server stream stayed intact are excluded and counted", "a success result is legitimate iff a well-formed work-done for that run ID is present in the bytes actually delivered, as decided by the reference decoder"},
	},
	"C19": {
		ID: "C19", Flavour: "codegen", Level: "exploration",
		Quick:    []Batch{{Name: "c19.docs", Count: 700}, {Name: "c19.mapkw", Count: 80}},
		Thorough: []Batch{{Name: "c19.docs", Count: 60000}, {Name: "c19.mapkw", Count: 4000}},
		Rule:     "each trial = one generated schema YAML document (0-6 objects x 0-6 properties, every type ID, references to existing and missing objects, identifier-valid names) fed to the code generator built from the working tree with a map-order seam, as a subprocess in a fresh temporary directory, with and without the ignore argument, under the natural, three drawn, the reversed and the runtime's own map iteration order (12 executions per trial; in half of the trials the previous output file is left in place between executions, as under go generate); oracles: exit status 0 and no panic, byte-identical output across orders, output parses with go/parser and contains exactly the modelled structs and JSON-tagged typed fields; distinct = distinct document; non-trivial = at least two objects or two properties",
		Real:     []string{"cmd/arcaflow-codegen/gen.go (whole program, as a subprocess), go/format, yaml.v3, x/text"},
		Stub:     []string{"runtime map iteration order -> local zzMapOrder seam driven by the environment"},
		Assume:   []string{"the generator's working directory and argument vector are the only inputs besides the document", "go:generate integration is not exercised"},
	},
	"C13": {
		ID: "C13", Flavour: "schema", Race: true, Level: "exploration",
		Quick: []Batch{
			{Name: "c13.ops", Count: 6000},
			{Name: "c13.global", Count: 160},
			{Name: "c13.steps", Count: 2500},
			{Name: "c13.session", Count: 300},
		},
		Thorough: []Batch{
			{Name: "c13.ops", Count: 400000},
			{Name: "c13.many", Count: 60000},
			{Name: "c13.global", Count: 6000},
			{Name: "c13.steps", Count: 150000},
			{Name: "c13.session", Count: 40000},
		},
		Rule:   "each trial = 2-4 goroutines (2-16 in c13.many) issuing mixed Unserialize / Validate / Serialize / ValidateCompatibility calls on ONE schema that is brand new for the trial (freshly built from a generated recipe, freshly rebuilt from its own description, or the struct-mapped library scope with unit-bearing numbers and nested defaults), under one seeded schedule with a yield before every statement of the schema package, in a binary built with -race and a happens-before-neutral scheduler; c13.global trials run one per worker process so that the first use of the package-level unit definitions is what the goroutines race on; c13.steps / c13.session re-run the step-call and ATP session simulations under the race detector; oracles: every call returns what it returns in isolation on another fresh instance, zero race reports whose two stacks lie in the SDK, no panic; distinct = distinct schedule signature; non-trivial = at least one preemption",
		Real:   []string{"schema package", "atp client and server (c13.session)", "Go race detector (ThreadSanitizer runtime)"},
		Stub:   []string{"sync.Mutex/Once -> shim that gives the race detector the same happens-before edges as a real mutex", "scheduler hand-off is hidden from the race detector (runtime.RaceDisable around park/release)", "transport/clock as in C05 for c13.session"},
		Assume: []string{"the race detector reports a given pair of stacks once per process; attribution to a trial uses the report counter before/after the trial", "trials contain no timers or sleeps except in c13.session"},
	},
	"C12": {
		ID: "C12", Flavour: "atp", Level: "exploration",
		Quick:    []Batch{{Name: "c12.history", Count: 40000}, {Name: "c12.lib", Count: 12000}},
		Thorough: []Batch{{Name: "c12.history", Count: 3000000}, {Name: "c12.lib", Count: 600000}},
		Rule:     "each run = one generated scope schema and a tape-drawn history of 1-30 operations (Unserialize, Validate, Serialize, ValidateCompatibility with data and with identical / single-feature-mutated schemas; valid and corrupted arguments; results of earlier calls fed back) on ONE instance - c12.lib does the same on a fixed struct-mapped scope (defaults of non-pointer object members, sub-object defaults, unit strings, a plain sub-object used as member and as list item); every operation is evaluated under the natural, two drawn, the reversed and a rotated iteration order of every map the SDK ranges over (map-order seam on all range-over-map and MapKeys sites), its argument is deep-compared before/after, and its verdict/result and the schema's self-description are compared with a freshly built instance; distinct = distinct (schema recipe, history); non-trivial = at least one map iteration was reordered",
		Real:     []string{"schema package (all type kinds reachable from generated scopes)"},
		Stub:     []string{"runtime map iteration order -> zzsimrt.MapOrder / OrderKeys seam (single goroutine, no scheduler)"},
		Assume:   []string{"error text is not compared, only accept/reject and accepted results", "mutating returned values is not part of the statement and is not done"},
	},
	"C15": {
		ID: "C15", Flavour: "atp", Level: "exploration",
		Quick:    []Batch{{Name: "c15.pairs", Count: 40000}},
		Thorough: []Batch{{Name: "c15.pairs", Count: 3000000}},
		Rule:     "each run = one generated non-recursive consumer schema and 6-10 producer schemas (itself, rebuilt from the recipe, rebuilt from its own description, single-feature mutations - kind change, undeclared property, missing required property, enum value outside, disjoint range, tightened bound, removed optional property, different enforced object ID - and an unrelated schema); consumer.ValidateCompatibility(producer) is evaluated under the natural, two drawn, the reversed and two rotated map iteration orders; distinct = distinct (recipe, producer set); non-trivial = at least one map iteration was reordered",
		Real:     []string{"schema package ValidateCompatibility of every type kind reachable from generated scopes"},
		Stub:     []string{"runtime map iteration order -> zzsimrt.MapOrder / OrderKeys seam (single goroutine, no scheduler)"},
		Assume:   []string{"restricted claim: decided = the verdict does not depend on map iteration order; reflexivity, rebuilt-compatibility and the must-reject rules are evaluated on the same pairs as side oracles (must-reject only for mutations of the root object); termination on recursive schemas is not decided (recursive recipes are excluded)"},
	},
	"C11": {
		ID: "C11", Flavour: "atp", Level: "exploration",
		Quick: []Batch{
			{Name: "c11.random", Count: 30000},
			{Name: "c11.sweep", Sweep: &SweepSpec{Files: []string{"schema/step.go", "schema/schema.go", "schema/signal.go"}, Occ: []int{1, 2, 3}, History: 12}},
		},
		Thorough: []Batch{
			{Name: "c11.random", Count: 1500000},
			{Name: "c11.sweep", Sweep: &SweepSpec{Files: []string{"schema/step.go", "schema/schema.go", "schema/signal.go"}, Occ: []int{1, 2, 3, 4, 5, 6, 7, 8}, History: 200}},
			{Name: "c11.sweep", Count: 300000, Sweep: &SweepSpec{Files: []string{"schema/step.go", "schema/schema.go", "schema/signal.go"}, Occ: []int{1, 2, 3, 4}, History: 64, Pairs: true}},
		},
		Rule:   "each run = 2-6 goroutines issuing CallStep / CallSignal on one generated CallableSchema for 1-3 run IDs (valid and invalid inputs, unknown step and signal IDs, handlers returning declared/undeclared output IDs and conforming/non-conforming data, steps with and without initializer) under one seeded schedule with a yield before every statement of schema/step.go, schema.go and signal.go; sweep batches hold every one of those statements singly (and sampled pairs) on canonical workloads; every call is compared with the same call made alone on a fresh copy; distinct = distinct schedule signature; non-trivial = at least one preemption",
		Real:   []string{"schema.CallableSchema, CallableStepSchema, CallableSignalSchema (schema/schema.go, step.go, signal.go) and the schema package underneath"},
		Stub:   []string{"sync.Mutex -> scheduler-visible shim", "step/signal handlers and initializers -> recording harness code"},
		Assume: []string{"the input/typed-error clauses are evaluated as the sequential-reference oracle of the same runs; the schedule clause is what the simulation decides"},
	},
	"C09": {
		ID: "C09", Flavour: "atp", Level: "exploration",
		Quick:    []Batch{{Name: "c09.session", Count: 9000}},
		Thorough: []Batch{{Name: "c09.session", Count: 500000}},
		Rule:     "each run = one seeded session (real client and server, generated rich plugin schema with units, enums with display data, defaults, presence rules, disabled properties, references, one-of, signal handlers and emitters) whose hello message is delivered over a fragmenting/coalescing transport; the engine's rebuilt copy is compared with the plugin's own copy: identical self-description, describe/rebuild/describe fixed point, equal accept/reject verdicts on every input and signal payload of the session, outputs accepted by the engine-side output schema; distinct = distinct schedule signature x transport configuration; non-trivial = at least one preemption",
		Real:     atpReal, Stub: commonStub,
		Assume: []string{"restricted claim: only the clause 'the same holds for a whole plugin schema as carried in the ATP hello message' is decided; the direct and YAML round trips are pure and are not decided here", "behavioural equality is checked on the traffic of the session, not on all inputs"},
	},
	"C10": {
		ID: "C10", Flavour: "atp", Level: "exploration",
		Quick: []Batch{
			{Name: "c10.mutate", Count: 12000},
			{Name: "c10.random", Count: 4000},
			{Name: "c10.sweep", Count: 16, Extra: map[string]any{"stride": 16}},
			{Name: "c10.scope", Count: 12000},
		},
		Thorough: []Batch{
			{Name: "c10.mutate", Count: 600000},
			{Name: "c10.random", Count: 200000},
			{Name: "c10.sweep", Count: 48, Extra: map[string]any{"stride": 1}},
			{Name: "c10.scope", Count: 600000},
		},
		Rule:   "each run = Client.ReadSchema against a scripted server whose hello carries a generated plugin description with 1-2 structural mutations (delete / retype / rename / re-key / duplicate / re-point / null / extreme) at tape-chosen nodes, or a grammar-free random tree; batch c10.scope hands mutated (and unmutated) scope descriptions to schema.UnserializeScope directly, where loading = UnserializeScope + ApplySelf + ValidateReferences; an accepted schema is then used as an engine would (Unserialize/Validate/Serialize/ValidateCompatibility on generated valid and invalid inputs for every step input, output and signal schema, SelfSerialize); sweep batches apply every mutation kind at every node (thorough) or every 6th node (quick) of a base description; distinct = distinct mutation set; non-trivial = at least one mutation applied",
		Real:   []string{"atp client ReadSchema", "schema.UnserializeSchema and the whole schema package on the accepted result", "fxamacker/cbor"},
		Stub:   append([]string{"atp server -> scripted hello sender"}, commonStub...),
		Assume: []string{"the schedule dimension is degenerate (one engine goroutine); what is explored is the fault space of the hello message", "a CPU-bound hang would surface as a worker timeout (exit 2), not as a verdict"},
	},
	"C05": {
		ID: "C05", Flavour: "atp", Level: "exploration",
		Quick: []Batch{
			{Name: "c05.basic", Count: 8000},
			{Name: "c05.signals", Count: 4000},
			{Name: "c05.misbehave", Count: 3000},
			{Name: "c05.v1", Count: 2500},
		},
		Thorough: []Batch{
			{Name: "c05.basic", Count: 400000},
			{Name: "c05.signals", Count: 200000},
			{Name: "c05.misbehave", Count: 100000},
			{Name: "c05.v1", Count: 80000},
		},
		Rule: "each run = one seeded session with a generated plugin schema, generated inputs, 1-4 caller goroutines; every Execute result is compared with CallStep on an independent in-process copy; distinct = distinct schedule signature x transport configuration; non-trivial = at least one preemption",
		Real: atpReal, Stub: commonStub,
		Assume: []string{"the reference call sees the CBOR-normalised input (the documented identification)", "legacy v1 framing: the SDK has no v1 server, so batch c05.v1 plays a stub v1 plugin whose answers are the in-process CallStep results of a reference copy (v1 has no error message: only calls whose reference succeeds are in those transcripts)"},
	},
}

type agg struct {
	runs        int
	byOutcome   map[string]int
	sigs        map[string]struct{}
	nontrivSigs map[string]struct{}
	faults      map[string]int
	probes      map[string]int
	features    map[string]int
	strategies  map[string]int
	sites       map[int]struct{}
	pairs       map[uint64]struct{}
	steps       int64
	switches    int64
	preempt     int64
	fakeMs      int64
	samples     []any
	excluded    map[string]int
	infra       []string
	viol        []RunRecord
	other       map[string]int
	perBatch    map[string]int
}

func newAgg() *agg {
	return &agg{byOutcome: map[string]int{}, sigs: map[string]struct{}{}, nontrivSigs: map[string]struct{}{}, faults: map[string]int{}, probes: map[string]int{},
		features: map[string]int{}, strategies: map[string]int{}, sites: map[int]struct{}{}, pairs: map[uint64]struct{}{}, excluded: map[string]int{}, other: map[string]int{}, perBatch: map[string]int{}}
}

func (a *agg) add(r RunRecord, prop string) {
	a.runs++
	a.perBatch[r.Batch]++
	a.byOutcome[r.Outcome]++
	key := r.Batch + "/" + r.SchedSig + "/" + strings.Join(r.Features, ",")
	a.sigs[key] = struct{}{}
	if r.Nontrivial {
		a.nontrivSigs[key] = struct{}{}
	}
	for k, v := range r.Faults {
		a.faults[k] += v
	}
	for k, v := range r.Probes {
		a.probes[k] += v
	}
	for _, f := range r.Features {
		a.features[f]++
	}
	if r.Strategy != "" {
		a.strategies[r.Strategy]++
	}
	for _, s := range r.Sites {
		a.sites[s] = struct{}{}
	}
	for _, p := range r.PairHashes {
		a.pairs[p] = struct{}{}
	}
	a.steps += int64(r.Steps)
	a.switches += int64(r.Switches)
	a.preempt += int64(r.Preempt)
	a.fakeMs += r.FakeMs
	if len(a.samples) < 4 && r.Sample != nil && r.Outcome == "ok" && (a.runs%97 == 1 || len(a.samples) == 0) {
		a.samples = append(a.samples, r.Sample)
	}
	switch r.Outcome {
	case "excluded":
		reason := r.Reason
		if len(reason) > 120 {
			reason = reason[:120]
		}
		a.excluded[reason]++
	case "infra":
		a.infra = append(a.infra, fmt.Sprintf("%s run %d: %s", r.Batch, r.Run, r.Reason))
	case "violation":
		a.viol = append(a.viol, r)
	}
	for _, v := range r.Violations {
		if v.Property != prop {
			a.other[v.Property+" "+v.Class+" "+trunc(v.Signature, 100)]++
		}
	}
}

func trunc(s string, n int) string {
	if len(s) > n {
		return s[:n]
	}
	return s
}

// KnownFinding is an entry of /verif/known_findings.json.
type KnownFinding struct {
	Property      string `json:"property"`
	Class         string `json:"class"`
	Signature     string `json:"signature"`
	Status        string `json:"status"` // known | fixed
	Commit        string `json:"commit,omitempty"`
	Description   string `json:"description"`
	ExampleReplay string `json:"example_replay,omitempty"`
}

func loadKnown() []KnownFinding {
	b, err := os.ReadFile(filepath.Join(verifDir, "known_findings.json"))
	if err != nil {
		return nil
	}
	var k []KnownFinding
	if err := json.Unmarshal(b, &k); err != nil {
		fmt.Fprintln(os.Stderr, "known_findings.json is not valid JSON:", err)
		os.Exit(2)
	}
	return k
}

func seedFromEnv() uint64 {
	if s := os.Getenv("VERIF_SEED"); s != "" {
		if v, err := strconv.ParseUint(s, 10, 64); err == nil {
			return v
		}
		if v, err := strconv.ParseInt(s, 10, 64); err == nil {
			return uint64(v)
		}
	}
	return 1
}

// codegenBin is the instrumented code generator of the current check (flavour "codegen").
var codegenBin string

var beginRe = regexp.MustCompile(`^(BEGIN|END) (\d+)`)

type workerResult struct {
	job      Job
	err      error
	stderr   string
	crashRun int64 // run in progress when the worker died (-1 if none)
	timedOut bool
}

func runWorker(bin string, job Job, timeout time.Duration, race bool) workerResult {
	jb, _ := json.Marshal(job)
	cmd := exec.Command(bin, "-test.run", "^TestWorker$", "-test.timeout", "0", "-test.count", "1")
	cmd.Env = append(os.Environ(), "VERIF_JOB="+string(jb), "GOMAXPROCS=2", "VERIF_CODEGEN_BIN="+codegenBin)
	if race {
		cmd.Env = append(cmd.Env, "GORACE=halt_on_error=0 log_path="+job.Out+".race", "VERIF_RACE_LOG="+job.Out+".race")
	}
	var stderr bytes.Buffer
	cmd.Stderr = &stderr
	cmd.Stdout = &stderr
	res := workerResult{job: job, crashRun: -1}
	if err := cmd.Start(); err != nil {
		res.err = err
		return res
	}
	done := make(chan error, 1)
	go func() { done <- cmd.Wait() }()
	select {
	case err := <-done:
		res.err = err
	case <-time.After(timeout):
		_ = cmd.Process.Kill()
		<-done
		res.timedOut = true
		res.err = fmt.Errorf("worker timed out after %v", timeout)
	}
	res.stderr = stderr.String()
	if res.err != nil {
		open := int64(-1)
		sc := bufio.NewScanner(strings.NewReader(res.stderr))
		sc.Buffer(make([]byte, 1<<20), 1<<26)
		for sc.Scan() {
			m := beginRe.FindStringSubmatch(sc.Text())
			if m == nil {
				continue
			}
			n, _ := strconv.ParseInt(m[2], 10, 64)
			if m[1] == "BEGIN" {
				open = n
			} else if open == n {
				open = -1
			}
		}
		res.crashRun = open
	}
	return res
}

func readRecords(path string) ([]RunRecord, error) {
	f, err := os.Open(path)
	if err != nil {
		return nil, err
	}
	defer f.Close()
	var out []RunRecord
	sc := bufio.NewScanner(f)
	sc.Buffer(make([]byte, 1<<20), 1<<28)
	for sc.Scan() {
		var r RunRecord
		if err := json.Unmarshal(sc.Bytes(), &r); err != nil {
			return out, fmt.Errorf("bad record in %s: %v", path, err)
		}
		out = append(out, r)
	}
	return out, sc.Err()
}

func siteCount(p *prepInfo, files []string) int {
	n := 0
	for _, s := range p.Sites {
		if !s.Yield {
			continue
		}
		for _, f := range files {
			if strings.HasPrefix(s.Label, f) {
				n++
				break
			}
		}
	}
	return n
}

var sdkFrameRe = regexp.MustCompile(`pluginsdk/(?:schema|atp)\.(?:\(\*?(\w+)(?:\[\.\.\.\])?\)\.|(\w+)\[\.\.\.\]\.)?(\w+)`)

// fatalLine names a fatal error of a worker. A stack overflow is told apart by the SDK methods that recurse:
// "unbounded recursion in ValidateCompatibility" is one defect, a recursion through Unserialize another.
func fatalLine(stderr string) string {
	line := "worker died"
	for _, l := range strings.Split(stderr, "\n") {
		if strings.HasPrefix(l, "fatal error:") || strings.HasPrefix(l, "panic:") {
			line = trunc(strings.TrimSpace(l), 160)
			break
		}
	}
	if !strings.Contains(line, "stack overflow") {
		return line
	}
	// the methods on the overflowing goroutine's stack (its first few hundred frames are printed)
	methods := map[string]bool{}
	n := 0
	for _, l := range strings.Split(stderr, "\n") {
		if !strings.HasPrefix(l, "go.flow.arcalot.io/pluginsdk/") {
			continue
		}
		m := sdkFrameRe.FindStringSubmatch(l)
		if m == nil {
			continue
		}
		n++
		if n > 120 {
			break
		}
		if !strings.HasPrefix(m[3], "func") {
			methods[m[3]] = true
		}
	}
	if len(methods) == 0 {
		return line
	}
	compat := false
	for k := range methods {
		if strings.Contains(k, "Compatibility") {
			compat = true
		}
	}
	switch {
	case methods["Unserialize"], methods["Serialize"], methods["Validate"], !compat:
		var names []string
		for k := range methods {
			names = append(names, k)
		}
		sort.Strings(names)
		return trunc(line+": unbounded recursion through "+strings.Join(names, ","), 220)
	default:
		return line + ": unbounded recursion in ValidateCompatibility (self-referencing schema)"
	}
}

func infraExit(format string, a ...any) {
	fmt.Fprintf(os.Stderr, "INFRASTRUCTURE ERROR: "+format+"\n", a...)
	os.Exit(2)
}

func doCheck(id, tier string) int {
	spec, ok := specs[id]
	if !ok {
		fmt.Fprintf(os.Stderr, "no check for property %s\n", id)
		return 2
	}
	start := time.Now()
	seed := seedFromEnv()
	work, err := os.MkdirTemp("", "verifsim-"+id+"-")
	if err != nil {
		infraExit("mktemp: %v", err)
	}
	defer os.RemoveAll(work)
	prep, err := prepare(work, spec.Flavour)
	if err != nil {
		infraExit("prepare: %v", err)
	}
	batches := spec.Quick
	if tier == "thorough" {
		batches = spec.Thorough
	}
	plainBin := filepath.Join(work, "harness.test")
	raceBin := filepath.Join(work, "harness.race.test")
	needPlain, needRace := false, false
	for _, b := range batches {
		if raceBatch(spec, b.Name) {
			needRace = true
		} else {
			needPlain = true
		}
	}
	if needPlain {
		if err := buildHarness(prep, false, plainBin); err != nil {
			infraExit("%v", err)
		}
	}
	if needRace {
		if err := buildHarness(prep, true, raceBin); err != nil {
			infraExit("%v", err)
		}
	}
	binFor := func(batch string) (string, bool) {
		if raceBatch(spec, batch) {
			return raceBin, true
		}
		return plainBin, false
	}
	codegenBin = prep.CodegenBin
	buildS := time.Since(start).Seconds()

	workerTimeout := 8 * time.Minute
	if tier == "thorough" {
		workerTimeout = 3 * time.Hour
	}
	replayTmp := filepath.Join(work, "replays")
	type unit struct {
		job Job
	}
	var units []unit
	nWorkers := 16
	for bi, b := range batches {
		count := b.Count
		var extra json.RawMessage
		if b.Sweep != nil {
			eb, _ := json.Marshal(b.Sweep)
			extra = eb
			if !b.Sweep.Pairs {
				ns := siteCount(prep, b.Sweep.Files)
				h := b.Sweep.History
				if h <= 0 {
					h = 1
				}
				count = uint64(ns * len(b.Sweep.Occ) * h)
			}
		} else if b.Extra != nil {
			eb, _ := json.Marshal(b.Extra)
			extra = eb
		}
		chunks := uint64(nWorkers * 3)
		if count < chunks*20 {
			chunks = count/20 + 1
		}
		per := (count + chunks - 1) / chunks
		if strings.Contains(b.Name, "crash") || b.Name == "c10.sweep" || b.Name == "c13.global" {
			per = 1 // one base execution (with all its fault points) per unit of work
		}
		shards := 1
		if strings.Contains(b.Name, "crash") {
			shards = 4 // the fault points of one base execution are spread over four workers
			if m, ok := b.Extra.(map[string]any); ok {
				if eb, _ := m["every_byte"].(bool); eb {
					shards = 32 // every byte offset: tens of thousands of fault points per base
				}
			}
		}
		for c := uint64(0); c*per < count; c++ {
			from, to := b.Start+c*per, b.Start+(c+1)*per
			if to > b.Start+count {
				to = b.Start + count
			}
			for sh := 0; sh < shards; sh++ {
				j := Job{Property: id, Batch: b.Name, Mode: "explore", Seed: seed + uint64(bi)*1000003, From: from, To: to,
					Out: filepath.Join(work, fmt.Sprintf("out-%d-%d-%d.jsonl", bi, c, sh)), ReplayDir: replayTmp, MaxViol: 2, Extra: extra}
				if shards > 1 {
					j.SubMod, j.SubRem = shards, sh
				}
				units = append(units, unit{j})
			}
		}
	}
	var knownV []Violation
	for _, kf := range loadKnown() {
		if kf.Status == "known" && kf.Property == id {
			knownV = append(knownV, Violation{Property: kf.Property, Class: kf.Class, Signature: kf.Signature})
		}
	}
	for i := range units {
		units[i].job.Known = knownV
		if raceBatch(spec, units[i].job.Batch) {
			units[i].job.MaxViol = 1
		}
	}
	a := newAgg()
	var mu sync.Mutex
	var wg sync.WaitGroup
	sem := make(chan struct{}, nWorkers)
	var infra []string
	var crashes []workerResult
	for _, u := range units {
		wg.Add(1)
		sem <- struct{}{}
		go func(u unit) {
			defer wg.Done()
			defer func() { <-sem }()
			bin, race := binFor(u.job.Batch)
			res := runWorker(bin, u.job, workerTimeout, race)
			recs, rerr := readRecords(u.job.Out)
			mu.Lock()
			defer mu.Unlock()
			for _, r := range recs {
				a.add(r, id)
			}
			complete := len(recs) > 0 && res.crashRun < 0 && !res.timedOut && strings.Contains(res.stderr, fmt.Sprintf("END %d", u.job.To-1))
			if res.err != nil && !(race && complete) {
				// (a race build's test binary exits non-zero once the detector has reported anything,
				// although the worker ran to completion: that is not a crash)
				crashes = append(crashes, res)
			} else if rerr != nil {
				infra = append(infra, rerr.Error())
			}
		}(u)
	}
	wg.Wait()

	// crashed workers: rerun the run that was in progress alone to confirm a fatal violation
	var fatals []RunRecord
	for _, c := range crashes {
		if c.timedOut || c.crashRun < 0 {
			infra = append(infra, fmt.Sprintf("worker %s [%d,%d): %v: %s", c.job.Batch, c.job.From, c.job.To, c.err, trunc(c.stderr, 2000)))
			continue
		}
		j := c.job
		j.From, j.To = uint64(c.crashRun), uint64(c.crashRun)+1
		j.Out = c.job.Out + ".rerun"
		bin, race := binFor(j.Batch)
		r2 := runWorker(bin, j, 5*time.Minute, race)
		if r2.err != nil && r2.crashRun == c.crashRun {
			line := fatalLine(r2.stderr)
			v := Violation{Property: id, Class: "fatal", Signature: line, Detail: trunc(r2.stderr, 4000)}
			rf := map[string]any{"property": id, "engine": id, "batch": j.Batch, "seed": j.Seed, "run_index": c.crashRun, "extra": j.Extra, "violation": v, "fatal": true, "tape": []any{}}
			_ = os.MkdirAll(replayTmp, 0o755)
			name := filepath.Join(replayTmp, fmt.Sprintf("%s-%s-%d-%d-fatal.json", id, j.Batch, j.Seed, c.crashRun))
			b, _ := json.Marshal(rf)
			_ = os.WriteFile(name, b, 0o644)
			fatals = append(fatals, RunRecord{Run: uint64(c.crashRun), Batch: j.Batch, Outcome: "violation", Violations: []Violation{v}, ReplayFile: name})
		} else {
			infra = append(infra, fmt.Sprintf("worker %s died at run %d but the run does not crash alone: %s", c.job.Batch, c.crashRun, trunc(c.stderr, 1500)))
		}
		// the rest of the chunk after the crash
		if uint64(c.crashRun)+1 < c.job.To {
			j2 := c.job
			j2.From = uint64(c.crashRun) + 1
			j2.Out = c.job.Out + ".rest"
			r3 := runWorker(bin, j2, workerTimeout, race)
			recs, _ := readRecords(j2.Out)
			for _, r := range recs {
				a.add(r, id)
			}
			if r3.err != nil {
				infra = append(infra, fmt.Sprintf("worker %s [%d,%d) died again: %s", j2.Batch, j2.From, j2.To, trunc(r3.stderr, 800)))
			}
		}
	}
	a.viol = append(a.viol, fatals...)
	infra = append(infra, a.infra...)

	// violations: confirm by replay in a fresh process, look up known findings
	known := loadKnown()
	type finding struct {
		v      Violation
		replay string
		count  int
		stable bool
	}
	bySig := map[string]*finding{}
	var order []string
	for _, r := range a.viol {
		for _, v := range r.Violations {
			if v.Property != id {
				continue
			}
			k := v.Class + "\x00" + v.Signature
			f, ok := bySig[k]
			if !ok {
				f = &finding{v: v}
				bySig[k] = f
				order = append(order, k)
			}
			f.count++
			if f.replay == "" && r.ReplayFile != "" {
				f.replay = r.ReplayFile
			}
			break
		}
	}
	sort.Strings(order)
	exit := 0
	var knownHit []string
	var newViol []string
	_ = os.MkdirAll(filepath.Join(verifDir, "replays"), 0o755)
	for _, k := range order {
		f := bySig[k]
		isKnown := false
		for _, kf := range known {
			if kf.Status == "known" && kf.Property == id && kf.Class == f.v.Class && kf.Signature == f.v.Signature {
				isKnown = true
				fmt.Printf("KNOWN-FINDING: property=%s %s: %s (%d runs)\n", id, f.v.Class, kf.Description, f.count)
				knownHit = append(knownHit, f.v.Class+" "+f.v.Signature)
			}
		}
		if isKnown {
			continue
		}
		dest := ""
		if f.replay != "" {
			// confirm in a fresh process
			if f.v.Class != "fatal" {
				out := filepath.Join(work, "replay-out.jsonl")
				rj := Job{Property: id, Mode: "replay", Replay: f.replay, Out: out}
				bin, race := binFor(replayBatch(f.replay))
				rr := runWorker(bin, rj, 5*time.Minute, race)
				recs, _ := readRecords(out)
				f.stable = rr.err == nil && len(recs) == 1 && strings.HasPrefix(recs[0].Reason, "reproduced") && !strings.Contains(recs[0].Reason, "differs")
			} else {
				f.stable = true
			}
			dest = filepath.Join(verifDir, "replays", filepath.Base(f.replay))
			if b, err := os.ReadFile(f.replay); err == nil {
				var m map[string]any
				if json.Unmarshal(b, &m) == nil {
					m["replay_unstable"] = !f.stable
					m["tree_hash"] = prep.TreeHash
					b, _ = json.Marshal(m)
				}
				_ = os.WriteFile(dest, b, 0o644)
			}
		}
		if !f.stable && f.replay != "" {
			infra = append(infra, fmt.Sprintf("replay of %s did not reproduce identically (machinery nondeterminism)", dest))
		}
		fmt.Printf("VIOLATION property=%s replay=%s\n", id, dest)
		fmt.Printf("  class=%s signature=%s runs=%d\n  detail=%s\n", f.v.Class, f.v.Signature, f.count, trunc(f.v.Detail, 1500))
		newViol = append(newViol, f.v.Class+" "+f.v.Signature)
		exit = 1
	}

	wall := time.Since(start).Seconds()
	// evidence
	yieldSites := 0
	for _, s := range prep.Sites {
		if s.Yield {
			yieldSites++
		}
	}
	if len(a.samples) == 0 {
		a.samples = append(a.samples, map[string]any{"note": "no ok run to sample"})
	}
	runSecs := wall - buildS
	if runSecs <= 0 {
		runSecs = 0.001
	}
	ev := map[string]any{
		"property_id": id,
		"tier":        tier,
		"seed":        seed,
		"level":       spec.Level,
		"wall_s":      wall,
		"violations":  len(newViol),
		"assumptions": spec.Assume,
		"coverage": map[string]any{
			"evaluations":                    a.runs,
			"distinct_nontrivial":            len(a.nontrivSigs),
			"rule":                           spec.Rule,
			"samples":                        a.samples,
			"exhaustive":                     false,
			"distinct_schedules":             len(a.sigs),
			"runs_per_batch":                 a.perBatch,
			"outcomes":                       a.byOutcome,
			"excluded_runs":                  a.excluded,
			"other_property_violations_seen": a.other,
			"known_findings_hit":             knownHit,
			"new_violations":                 newViol,
			"runs_per_hour":                  int(float64(a.runs) / runSecs * 3600),
			"seeds_per_hour":                 int(float64(a.runs) / runSecs * 3600),
			"simulated_time_s":               float64(a.fakeMs) / 1000,
			"scheduler_steps":                a.steps,
			"context_switches":               a.switches,
			"preemptions":                    a.preempt,
			"fault_kinds_fired":              a.faults,
			"workload_features":              a.features,
			"strategies":                     a.strategies,
			"yield_sites_reached":            len(a.sites),
			"yield_sites_total":              yieldSites,
			"preemption_pairs":               len(a.pairs),
			"probes":                         a.probes,
			"components":                     map[string]any{"real": spec.Real, "stub": spec.Stub},
			"instrumentation":                prep.Counts,
			"instrumentation_warnings":       prep.Warnings,
			"infrastructure_errors":          infra,
			"build_s":                        buildS,
			"tree_hash":                      prep.TreeHash,
		},
	}
	_ = os.MkdirAll(filepath.Join(verifDir, "evidence"), 0o755)
	eb, _ := json.MarshalIndent(ev, "", " ")
	if err := os.WriteFile(filepath.Join(verifDir, "evidence", id+".json"), eb, 0o644); err != nil {
		infraExit("write evidence: %v", err)
	}
	fmt.Printf("%s %s: runs=%d distinct_nontrivial=%d outcomes=%v wall=%.1fs\n", id, tier, a.runs, len(a.nontrivSigs), a.byOutcome, wall)
	if exit == 0 && len(infra) > 0 {
		for _, l := range infra {
			fmt.Fprintln(os.Stderr, "infra:", trunc(l, 3000))
		}
		return 2
	}
	return exit
}
