package main

import (
	"crypto/sha256"
	"encoding/hex"
	"fmt"
	"os"
	"os/exec"
	"path/filepath"
	"strings"
	"sync"
	"time"

	"encoding/json"
)

// doSelftest proves determinism: the same seeds are run several times, in separate processes and at
// several GOMAXPROCS values, with full event logs; every log must be byte-identical per (batch, seed).
func doSelftest(args []string) int {
	runs := uint64(40)
	flav := []struct {
		flavour string
		race    bool
		jobs    [][2]string // property, batch
	}{
		{"atp", false, [][2]string{{"C06", "c06.mixed"}, {"C06", "c06.peer"}, {"C05", "c05.basic"}, {"C05", "c05.signals"}, {"C07", "c07.hostile"}, {"C07", "c07.garbage"}, {"C08", "c08.v3"}, {"C08", "c08.fatal"}, {"C09", "c09.session"}, {"C10", "c10.mutate"}, {"C11", "c11.random"}, {"C12", "c12.history"}, {"C12", "c12.lib"}, {"C15", "c15.pairs"}, {"C05", "c05.v1"}, {"C06", "c06.peerv1"}}},
		{"schema", true, [][2]string{{"C13", "c13.ops"}, {"C13", "c13.steps"}, {"C13", "c13.session"}}},
		{"atp", true, [][2]string{{"C06", "c06.race"}, {"C07", "c07.race"}}},
	}
	bad := 0
	total := 0
	start := time.Now()
	// VERIF_SELFTEST_FILTER=<substring of a batch name> restricts the run; VERIF_SELFTEST_KEEP=1 keeps the traces
	filter := os.Getenv("VERIF_SELFTEST_FILTER")
	keep := os.Getenv("VERIF_SELFTEST_KEEP") != ""
	for _, f := range flav {
		if filter != "" {
			var jobs [][2]string
			for _, jb := range f.jobs {
				if strings.Contains(jb[1], filter) {
					jobs = append(jobs, jb)
				}
			}
			f.jobs = jobs
			if len(jobs) == 0 {
				continue
			}
		}
		work, err := os.MkdirTemp("", "verifsim-selftest-")
		if err != nil {
			fmt.Fprintln(os.Stderr, err)
			return 2
		}
		prep, err := prepare(work, f.flavour)
		if err == nil {
			err = buildHarness(prep, f.race, filepath.Join(work, "h.test"))
		}
		if err != nil {
			os.RemoveAll(work)
			fmt.Fprintln(os.Stderr, "selftest build:", err)
			return 2
		}
		bin := filepath.Join(work, "h.test")
		type key struct{ prop, batch string }
		hashes := map[key]map[string]string{}
		var mu sync.Mutex
		var wg sync.WaitGroup
		sem := make(chan struct{}, 12)
		n := runs
		if f.race {
			n = 12
		}
		for _, jb := range f.jobs {
			for _, procs := range []string{"1", "4", "16"} {
				for rep := 0; rep < 3; rep++ {
					wg.Add(1)
					sem <- struct{}{}
					go func(prop, batch, procs string, rep int) {
						defer wg.Done()
						defer func() { <-sem }()
						tag := fmt.Sprintf("%s-%s-p%s-r%d", prop, batch, procs, rep)
						trace := filepath.Join(work, tag+".trace")
						job := Job{Property: prop, Batch: batch, Mode: "explore", Seed: 77, From: 0, To: n, Out: filepath.Join(work, tag+".jsonl"), Trace: trace, NoMinimise: true, MaxViol: 1000}
						j, _ := json.Marshal(job)
						cmd := exec.Command(bin, "-test.run", "^TestWorker$", "-test.timeout", "0")
						cmd.Env = append(os.Environ(), "VERIF_JOB="+string(j), "GOMAXPROCS="+procs, "GORACE=halt_on_error=0 log_path="+filepath.Join(work, tag+".race"), "VERIF_RACE_LOG="+filepath.Join(work, tag+".race"))
						_ = cmd.Run()
						b, err := os.ReadFile(trace)
						h := "missing"
						if err == nil {
							s := sha256.Sum256(b)
							h = hex.EncodeToString(s[:8]) + fmt.Sprintf("/%dB", len(b))
						}
						mu.Lock()
						k := key{prop, batch}
						if hashes[k] == nil {
							hashes[k] = map[string]string{}
						}
						hashes[k][tag] = h
						mu.Unlock()
					}(jb[0], jb[1], procs, rep)
				}
			}
		}
		wg.Wait()
		for _, jb := range f.jobs {
			k := key{jb[0], jb[1]}
			distinct := map[string][]string{}
			for tag, h := range hashes[k] {
				distinct[h] = append(distinct[h], tag)
			}
			total++
			status := "identical"
			if len(distinct) != 1 || strings.HasPrefix(firstKey(distinct), "missing") {
				status = fmt.Sprintf("DIVERGED: %v", distinct)
				bad++
			}
			fmt.Printf("selftest %-4s %-14s %d runs x 9 executions (GOMAXPROCS 1/4/16 x 3): %s\n", jb[0], jb[1], n, status)
		}
		if keep {
			fmt.Println("selftest traces kept in", work)
		} else {
			os.RemoveAll(work)
		}
	}
	fmt.Printf("selftest: %d/%d batches deterministic, %.0fs\n", total-bad, total, time.Since(start).Seconds())
	if bad > 0 {
		return 2
	}
	return 0
}

func firstKey(m map[string][]string) string {
	for k := range m {
		return k
	}
	return ""
}
