// Command verifsim is the driver of the /verif deterministic-simulation checks.
package main

import (
	"fmt"
	"os"
)

func usage() {
	fmt.Fprintln(os.Stderr, `usage:
  verifsim prep <dir> [flavour]       instrumented scratch copy + harness module (for development)
  verifsim check <id> [--tier quick|thorough]
  verifsim replay <file>`)
	os.Exit(2)
}

func main() {
	if len(os.Args) < 2 {
		usage()
	}
	switch os.Args[1] {
	case "prep":
		if len(os.Args) < 3 {
			usage()
		}
		fl := "atp"
		if len(os.Args) > 3 {
			fl = os.Args[3]
		}
		info, err := prepare(os.Args[2], fl)
		if err != nil {
			fmt.Fprintln(os.Stderr, "prep failed:", err)
			os.Exit(2)
		}
		fmt.Printf("prepared %s tree=%s sites=%d counts=%v warnings=%d\n", info.Dir, info.TreeHash, len(info.Sites), info.Counts, len(info.Warnings))
		for _, w := range info.Warnings {
			fmt.Println("warning:", w)
		}
	case "selftest":
		os.Exit(doSelftest(os.Args[2:]))
	case "warm":
		// build everything once so that the go build cache is hot
		os.Exit(doWarm())
	case "check":
		if len(os.Args) < 3 {
			usage()
		}
		tier := os.Getenv("VERIF_TIER")
		for i := 3; i < len(os.Args); i++ {
			if os.Args[i] == "--tier" && i+1 < len(os.Args) {
				tier = os.Args[i+1]
			}
		}
		if tier == "" {
			tier = "quick"
		}
		os.Exit(doCheck(os.Args[2], tier))
	case "replay":
		if len(os.Args) < 3 {
			usage()
		}
		os.Exit(doReplay(os.Args[2]))
	default:
		usage()
	}
}
