package main

import (
	"encoding/json"
	"fmt"
	"os"
	"path/filepath"
	"time"
)

// doReplay rebuilds the instrumented tree from /repo's working tree and
// replays one recorded violation in a fresh process. Exit 1 + VIOLATION line
// when it reproduces, 0 when it does not (the defect is gone), 2 on trouble.
func doReplay(path string) int {
	b, err := os.ReadFile(path)
	if err != nil {
		fmt.Fprintln(os.Stderr, err)
		return 2
	}
	var rf struct {
		Property  string          `json:"property"`
		Fatal     bool            `json:"fatal"`
		Batch     string          `json:"batch"`
		Seed      uint64          `json:"seed"`
		RunIndex  uint64          `json:"run_index"`
		Extra     json.RawMessage `json:"extra"`
		Violation Violation       `json:"violation"`
	}
	if err := json.Unmarshal(b, &rf); err != nil {
		fmt.Fprintln(os.Stderr, "bad replay file:", err)
		return 2
	}
	spec, ok := specs[rf.Property]
	if !ok {
		fmt.Fprintln(os.Stderr, "unknown property", rf.Property)
		return 2
	}
	work, err := os.MkdirTemp("", "verifsim-replay-")
	if err != nil {
		return 2
	}
	defer os.RemoveAll(work)
	prep, err := prepare(work, spec.Flavour)
	if err != nil {
		fmt.Fprintln(os.Stderr, "prepare:", err)
		return 2
	}
	bin := filepath.Join(work, "harness.test")
	race := raceBatch(spec, rf.Batch)
	if err := buildHarness(prep, race, bin); err != nil {
		fmt.Fprintln(os.Stderr, err)
		return 2
	}
	codegenBin = prep.CodegenBin
	abs, _ := filepath.Abs(path)
	out := filepath.Join(work, "replay.jsonl")
	if rf.Fatal {
		j := Job{Property: rf.Property, Batch: rf.Batch, Mode: "explore", Seed: rf.Seed, From: rf.RunIndex, To: rf.RunIndex + 1, Out: out, Extra: rf.Extra, NoMinimise: true}
		res := runWorker(bin, j, 10*time.Minute, race)
		if res.err != nil && res.crashRun == int64(rf.RunIndex) {
			fmt.Printf("VIOLATION property=%s replay=%s\n  fatal: %s\n", rf.Property, abs, fatalLine(res.stderr))
			return 1
		}
		fmt.Println("not reproduced: the worker survived the run")
		return 0
	}
	trace := os.Getenv("VERIF_TRACE")
	res := runWorker(bin, Job{Property: rf.Property, Mode: "replay", Replay: abs, Out: out, Trace: trace}, 10*time.Minute, race)
	recs, _ := readRecords(out)
	if (res.err != nil && !race) || len(recs) != 1 {
		fmt.Fprintf(os.Stderr, "replay worker failed: %v\n%s\n", res.err, trunc(res.stderr, 3000))
		return 2
	}
	r := recs[0]
	fmt.Printf("replay: %s (log hash %s)\n", r.Reason, r.LogHash)
	for _, v := range r.Violations {
		fmt.Printf("  %s %s %s\n    %s\n", v.Property, v.Class, v.Signature, trunc(v.Detail, 2000))
	}
	if len(r.Reason) >= 10 && r.Reason[:10] == "reproduced" {
		fmt.Printf("VIOLATION property=%s replay=%s\n", rf.Property, abs)
		return 1
	}
	return 0
}
